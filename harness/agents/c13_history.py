#!/venv/bin/python
"""C13 over HISTORIES: the used-qubit analysis and the parallel-disjointness check judged call after call in ONE process.

`used_diff.py` judges every generated program on its own and all of its programs share the register name `r`; nothing there
analyses circuits with DIFFERENT register names / sizes one after another, interleaved with emulator runs.  A regression that
keeps state between calls (a class-level table filled in place, a cache keyed by a register / alias / macro / parameter NAME,
a context dict shared between visits …) is invisible to it.  This script states C13 on sequences of 3-8 calls

    used          get_used_qubit_indices(circuit)
    used_pipe     get_used_qubit_indices(expand_macros(fill_in_let(expand_subcircuits(circuit))))
    used_stmt     get_used_qubit_indices(sub-statement)  (sub-statement that reaches a busy gate: a fresh visitor given the
                  all_qubits table of a fresh visitor that visited the circuit - what used_diff.py does)
    used_ctx      get_used_qubit_indices(statement of a macro body | the whole body, context = the parameters of a call)
    vp            UsedQubitIndicesVisitor with validate_parallel = True        accept / reject
    discover      DiscoverSubcircuits().visit(circuit)                         accept / reject, Trace.used_qubits
    discover_pipe … on the expanded circuit
    run           run_jaqal_circuit(circuit)                                   accept / reject, state vectors
    outparse      jaqalpaq.core.result.parse_jaqal_output_list(circuit, [0]*readouts)   (DiscoverSubcircuits based)   accept / reject

on 2-4 programs per history whose register names, register sizes, alias names, macro names, parameter names and let names are
drawn from small pools, so that they VARY from call to call and often COLLIDE (same register name with another size, an alias
named like another program's register, the same macro name with another body, the same parameter names in caller and callee
with permuted forwarding), with busy gates (prepare_all / measure_all) in some programs and none in others, aliases of strided
aliases, macros calling macros.  Circuit objects are mostly shared between the calls of a history, sometimes parsed afresh.

Expected values come from the generator's own ground truth (every qubit reference is generated as a fundamental
(register, index) first and rendered through an alias chain / macro parameter afterwards).  Programs are "otherwise valid":
one fundamental register, no gate given the same qubit twice (rejection sampling on the ground truth), loops run >= 1 times.

oracles (real code alone; "corr" is empty)
    used_exact_in_history    every used* call returns exactly the ground-truth set of ITS circuit / statement (empty entries
                             dropped), whatever ran before; Trace.used_qubits of discover* = all qubits of ITS circuit
    reject_iff_in_history    vp / discover* / run / outparse raise JaqalError <=> ground truth has a parallel block with two
                             intersecting branches (any other exception, a hang, or acceptance of a conflict fails)
    first_last_agree         the first call and the same call repeated as the last call of the history give the same outcome
                             (used set / acceptance / state vectors)
    order_in_history         the same call on the program with the branches of every parallel block permuted (elsewhere in the
                             same history) gives the same used set / acceptance / state vectors (exact: Gaussian-dyadic gates)

CLI:    PYTHONPATH=/verif /venv/bin/python /verif/harness/agents/c13_history.py [--seed S] [--n N] [--thorough]
Module: harness.agents.c13_history.run(seed, n, driver, thorough) -> dict ; replay(case, driver) -> dict
        a case is one whole history {"programs": [...], "calls": [...]}: replay needs nothing else.
"""
import os, sys, json, random, signal, argparse, warnings

os.environ.setdefault("JAQALPAQ_RUN_EMULATOR", "1")
_ROOT = __import__("os").path.dirname(__import__("os").path.dirname(__import__("os").path.dirname(__import__("os").path.abspath(__file__))))
if _ROOT not in sys.path:
    sys.path.insert(0, _ROOT)

DEFAULT_DRIVER = "/verif/lean/.lake/build/bin/jaqal-model"
PAR_MSG = "Parallel branches of block acting on the same qubit."

_LIB = {}


def lib():
    """Lazy imports (no work at import time)."""
    if _LIB:
        return _LIB
    warnings.filterwarnings("ignore")
    from harness.gates import GATES_IDLE
    from jaqalpaq.parser import parse_jaqal_string
    from jaqalpaq.core import GateDefinition, Parameter, ParamType
    from jaqalpaq.core.block import BlockStatement, LoopStatement
    from jaqalpaq.core.algorithm import get_used_qubit_indices, expand_macros, fill_in_let, expand_subcircuits
    from jaqalpaq.core.algorithm.used_qubit_visitor import UsedQubitIndicesVisitor
    from jaqalpaq.core.algorithm.walkers import DiscoverSubcircuits
    from jaqalpaq.core.result import parse_jaqal_output_list
    from jaqalpaq.emulator import run_jaqal_circuit
    from jaqalpaq.error import JaqalError

    G = dict(GATES_IDLE)
    G["RG"] = GateDefinition("RG", [Parameter("g", ParamType.REGISTER)])  # a gate with a REGISTER parameter (no unitary)

    class VP(UsedQubitIndicesVisitor):
        validate_parallel = True

    _LIB.update(locals())
    return _LIB


class Hang(Exception):
    pass


def _alarm(*a):
    raise Hang()


def guarded(f):
    """-> ("ok", value) | ("err", class name, message)"""
    L = lib()
    from harness import timeouts as _T
    old = signal.signal(signal.SIGALRM, _alarm)
    signal.alarm(_T.limit())
    try:
        return ("ok", f())
    except Hang:
        _T.saw_hang()
        return ("err", "hang", "")
    except L["JaqalError"] as e:
        return ("err", "JaqalError", str(e))
    except RecursionError:
        return ("err", "RecursionError", "")
    except Exception as e:
        return ("err", type(e).__name__, str(e)[:300])
    finally:
        signal.alarm(0)
        signal.signal(signal.SIGALRM, old)


# ------------------------------------------------------------------------------------------------
# name pools: deliberately small and overlapping (a register name of one program is an alias name of another, …)

REG_NAMES = ["q", "r", "w", "s", "t", "data", "anc", "qreg"]
ALIAS_NAMES = ["a", "b", "c", "ev", "od", "lo", "hi", "sub", "tail"]
MACRO_NAMES = ["m", "foo", "bar", "second", "swapped", "cyc"]
PARAM_NAMES = ["a", "b", "c", "x", "y", "ctl", "tgt"]
LET_NAMES = ["n", "k", "one", "two", "step", "sz"]

ONE = ["X", "Y", "Z", "S", "SX"]
TWO = ["CX", "CZ", "SWAP", "ISWAP", "HH", "NS"]
THREE = ["CCX", "ROT3"]
BUSY = ("prepare_all", "measure_all")

# AST: ("gate", name, args) | ("call", macro, args) | ("seq", items) | ("par", items) | ("loop", k, items)
# args: ("q", text, (reg, idx)) | ("reg", text, [(reg, idx)…]) | ("num", text) | ("p", name) | ("pi", name, i)


class PGen:
    """one program; `world` = the history's name pools (so that names collide between the programs of a history)"""

    def __init__(self, rng, world, reg, size, busy):
        self.rng = rng
        self.world = world
        self.reg = reg
        self.size = size
        self.busy = busy
        self.header = []
        self.lets = {}
        self.aliases = {}  # register-valued name -> list of fq
        self.qaliases = {}  # qubit-valued name -> fq
        self.macros = []  # (name, params, kinds, body)
        self.feat = {}
        self.hidden = set()
        self.readouts = 0

    def hit(self, k):
        self.feat[k] = self.feat.get(k, 0) + 1

    # ---- header
    def build_header(self):
        rng, W = self.rng, self.world
        used_names = {self.reg}
        for nm in rng.sample(W["lets"], rng.randint(0, min(3, len(W["lets"])))):
            self.lets[nm] = rng.choice([0, 1, 1, 2, 2, 3, self.size])
            used_names.add(nm)
            self.header.append(f"let {nm} {self.lets[nm]}")
        sz = [k for k, v in self.lets.items() if v == self.size]
        if sz and rng.random() < 0.4:
            self.header.append(f"register {self.reg}[{sz[0]}]")
            self.hit("let_sized_register")
        else:
            self.header.append(f"register {self.reg}[{self.size}]")
        self.aliases[self.reg] = [(self.reg, i) for i in range(self.size)]
        cands = [x for x in W["aliases"] if x not in used_names]
        rng.shuffle(cands)
        last_strided = None
        for nm in cands[: rng.randint(0, 4)]:
            if nm in REG_NAMES:
                self.hit("alias_named_like_a_register")
            if last_strided and rng.random() < 0.55:
                src = last_strided
            else:
                src = rng.choice(list(self.aliases))
            l = self.aliases[src]
            kind = rng.random()
            if kind < 0.15:
                self.header.append(f"map {nm} {src}")
                self.aliases[nm] = list(l)
                self.hit("alias_whole")
            elif kind < 0.35:
                i = rng.randrange(len(l))
                self.header.append(f"map {nm} {src}[{self.idx_text(i)}]")
                self.qaliases[nm] = l[i]
                self.hit("alias_single")
            else:
                start = rng.randrange(len(l))
                if len(l) > 1 and src == last_strided and start == 0:
                    start = rng.randrange(1, len(l))
                stop = rng.randint(start + 1, len(l))
                step = rng.choice([1, 1, 2, 2, 3])
                sub = l[start:stop:step]
                st, sp, se = self.idx_text(start), self.idx_text(stop), self.idx_text(step)
                if step == 1 and rng.random() < 0.5:
                    self.header.append(f"map {nm} {src}[{st}:{sp}]")
                    self.hit("alias_slice2")
                else:
                    self.header.append(f"map {nm} {src}[{st}:{sp}:{se}]")
                    self.hit("alias_strided" if step > 1 else "alias_slice3")
                self.aliases[nm] = sub
                if src != self.reg:
                    self.hit("alias_chain")
                    if src == last_strided and start > 0:
                        self.hit("alias_of_strided_alias_nonzero_start")
                if step > 1 and len(sub) > 1:
                    last_strided = nm
            used_names.add(nm)
        self.names = used_names

    def idx_text(self, i):
        c = [k for k, v in self.lets.items() if v == i]
        if c and self.rng.random() < 0.4:
            self.hit("let_index")
            return self.rng.choice(c)
        return str(i)

    def all_fq(self):
        return list(self.aliases[self.reg])

    def qubit(self, fq=None, avoid=()):
        rng = self.rng
        cands = []
        for nm, l in self.aliases.items():
            if nm in self.hidden:
                continue
            for i, q in enumerate(l):
                if fq is None or q == fq:
                    cands.append((f"{nm}[{self.idx_text(i) if rng.random() < 0.3 else i}]", q))
        for nm, q in self.qaliases.items():
            if nm in self.hidden:
                continue
            if fq is None or q == fq:
                cands.append((nm, q))
        c2 = [c for c in cands if c[1] not in avoid] or cands
        t, q = rng.choice(c2)
        return ("q", t, q)

    # ---- statements
    def gate(self, scope, pool=None):
        rng = self.rng
        used_params = set()
        taken = []

        def qarg():
            if scope and rng.random() < 0.85:
                cands = [(p, kind) for p, kind in scope if p not in used_params]
                if cands:
                    p, kind = rng.choice(cands)
                    used_params.add(p)
                    if kind == "q":
                        return ("p", p)
                    return ("pi", p, rng.randrange(2))
            if pool and rng.random() < 0.98:
                p2 = [q for q in pool if q not in taken]
                if p2:
                    a = self.qubit(fq=rng.choice(p2))
                    taken.append(a[2])
                    return a
            a = self.qubit(avoid=tuple(taken))
            taken.append(a[2])
            return a

        room = (len(set(pool)) if pool else self.size) + (len(scope) if scope else 0)
        k = rng.random()
        if k < 0.12:
            nm = "I_" + rng.choice(ONE + (TWO if room >= 2 else []))
            self.hit("idle_gate")
            return ("gate", nm, [qarg() for _ in range(1 if nm[2:] in ONE else 2)])
        if k < 0.17:
            self.hit("gate_without_unitary")
            return ("gate", "N", [qarg()])
        if k < 0.22 and not scope:
            nm = rng.choice([x for x in self.aliases if x not in self.hidden])
            if not pool or all(q in pool for q in self.aliases[nm]):
                self.hit("register_arg")
                return ("gate", "RG", [("reg", nm, list(self.aliases[nm]))])
        if k < 0.30:
            self.hit("classical_arg")
            if rng.random() < 0.5:
                return ("gate", "P", [qarg(), ("num", rng.choice(["1", "2", "3"]))])
            return ("gate", "PF", [("num", rng.choice(["1", "2.0", "3"])), qarg()])
        if k < 0.68 or room < 2:
            return ("gate", rng.choice(ONE), [qarg()])
        if k < 0.94 or room < 3:
            return ("gate", rng.choice(TWO), [qarg(), qarg()])
        return ("gate", rng.choice(THREE), [qarg(), qarg(), qarg()])

    def call(self, scope, upto, pool=None, permuted_from=None):
        rng = self.rng
        name, params, kinds, _ = self.macros[rng.randrange(upto)] if permuted_from is None else self.macros[permuted_from]
        args = []
        qs = [p for p, kk in scope if kk == "q"]
        rng.shuffle(qs)
        for kind in kinds:
            if kind == "q":
                if qs and rng.random() < (0.95 if permuted_from is not None else 0.7):
                    args.append(("p", qs.pop()))
                else:
                    av = tuple(a[2] for a in args if a[0] == "q")
                    p2 = [q for q in (pool or []) if q not in av]
                    args.append(self.qubit(fq=rng.choice(p2)) if p2 and rng.random() < 0.9 else self.qubit(avoid=av))
            else:
                rs = [p for p, kk in scope if kk == "r"]
                if rs and rng.random() < 0.7:
                    args.append(("p", rng.choice(rs)))
                else:
                    cands = [nm for nm, l in self.aliases.items() if len(l) >= 2 and nm not in self.hidden]
                    if not cands:
                        return self.gate(scope, pool)
                    nm = rng.choice(cands)
                    args.append(("reg", nm, list(self.aliases[nm])))
        self.hit("macro_call")
        if scope:
            self.hit("nested_macro_call")
        return ("call", name, args)

    def leaf(self, scope, upto, pool=None):
        if upto and self.rng.random() < 0.35:
            return self.call(scope, upto, pool)
        return self.gate(scope, pool)

    def stmt(self, scope, upto, depth, where="seq"):
        rng = self.rng
        k = rng.random()
        if depth >= 3 or k < 0.40:
            return self.leaf(scope, upto)
        if k < 0.80 and where != "par":
            fq = self.all_fq()
            rng.shuffle(fq)
            nb = rng.randint(2, max(2, min(4, len(fq))))
            pools = [fq[b::nb] or fq for b in range(nb)]
            if rng.random() < self.world["p_conflict"]:
                i, j = rng.sample(range(nb), 2)
                pools[i] = pools[i] + [rng.choice(pools[j])]
                self.hit("par_conflict_on_purpose")
            items = []
            qparams = [p for p in scope if p[1] == "q"]
            rng.shuffle(qparams)
            by_params = len(qparams) >= 2 and rng.random() < 0.35
            if by_params:
                # inside a macro body: the branches share out the qubit parameters (disjoint iff the arguments are distinct)
                nb = rng.randint(2, min(3, len(qparams)))
                self.hit("par_over_parameters")
                for b in range(nb):
                    mine = qparams[b::nb]
                    if len(mine) >= 2 and rng.random() < 0.5:
                        items.append(("gate", rng.choice(TWO), [("p", mine[0][0]), ("p", mine[1][0])]))
                    else:
                        items.append(("gate", rng.choice(ONE), [("p", mine[0][0])]))
            for b in range(0 if by_params else nb):
                pool = pools[b]
                sc = [] if rng.random() < 0.95 else scope
                if rng.random() < 0.6:
                    lf = self.leaf(sc, upto if rng.random() < 0.4 else 0, pool)
                    if lf[0] == "call" and rng.random() < 0.9:
                        # keep the footprint of the macro inside the branch's pool (mostly)
                        if any(a[0] in ("p", "pi") for a in lf[2]) or not truth(self, lf, {}, self.all_fq(), []) <= set(pool):
                            lf = self.gate(sc, pool)
                    items.append(lf)
                else:
                    sub = []
                    for _ in range(rng.randint(1, 3)):
                        if rng.random() < 0.15:
                            sub.append(("loop", rng.choice([1, 2, 3]), [self.gate(sc, pool)]))
                        else:
                            sub.append(self.gate(sc, pool))
                    items.append(("seq", sub))
            self.hit(f"par_{nb}")
            return ("par", items)
        if k < 0.90 and where in ("top", "par"):
            self.hit("seq_block")
            return ("seq", [self.stmt(scope, upto, depth + 1, "seq") for _ in range(rng.randint(1, 3))])
        if where == "par":
            return self.gate(scope)
        self.hit("loop")
        return ("loop", rng.choice([1, 2, 2, 3]), [self.stmt(scope, upto, depth + 1, "seq") for _ in range(rng.randint(1, 2))])

    def build_macros(self):
        rng, W = self.rng, self.world
        mnames = [x for x in W["macros"] if x not in self.names]
        rng.shuffle(mnames)
        for mi in range(min(len(mnames), rng.choice([0, 1, 2, 2, 3]))):
            shadowable = set(self.aliases) | set(self.qaliases)
            pool = [p for p in W["params"] if p != self.reg and p not in self.lets and p not in mnames
                    and (p not in shadowable or rng.random() < 0.3)]
            same_as = None
            if mi and rng.random() < 0.6:
                # the caller uses the callee's parameter names, forwarded in another order (`macro swapped c t { second t c }`)
                same_as = rng.randrange(mi)
                params = list(self.macros[same_as][1])
                kinds = list(self.macros[same_as][2])
                z = list(zip(params, kinds))
                rng.shuffle(z)
                params, kinds = [a for a, _ in z], [b for _, b in z]
                self.hit("caller_shares_parameter_names_with_callee")
            else:
                np_ = rng.randint(1, min(3, len(pool)))
                params = rng.sample(pool, np_)
                kinds = ["r" if (rng.random() < 0.15 and self.size >= 2) else "q" for _ in params]
            scope = list(zip(params, kinds))
            self.hidden = set(params)
            if self.hidden & shadowable:
                self.hit("param_shadows_alias")
            body = [self.stmt(scope, mi, 1, "seq") for _ in range(rng.randint(1, 3))]
            if same_as is not None:
                body.insert(rng.randrange(len(body) + 1), self.call(scope, mi, permuted_from=same_as))
            elif mi and rng.random() < 0.5:
                body.insert(rng.randrange(len(body) + 1), self.call(scope, mi))
            self.hidden = set()
            self.macros.append((mnames[mi], params, kinds, body))
            if "r" in kinds:
                self.hit("macro_register_param")

    def build(self):
        self.build_header()
        self.build_macros()
        rng = self.rng
        nm = len(self.macros)

        def stmts(lo, hi, where="top"):
            out = [self.stmt([], nm, 0, where) for _ in range(rng.randint(lo, hi))]
            if nm and rng.random() < 0.7:
                out.insert(rng.randrange(len(out) + 1), self.call([], nm))
            return out

        if self.busy:
            body = []
            for _ in range(rng.choice([1, 1, 2, 3])):
                in_loop = rng.random() < 0.3
                # a loop body is a sequential block: no { } directly inside it
                inner = [("gate", "prepare_all", [])] + stmts(1, 3, "seq" if in_loop else "top") + [("gate", "measure_all", [])]
                if in_loop:
                    k = rng.choice([1, 2, 3])
                    body.append(("loop", k, inner))
                    self.readouts += k
                    self.hit("subcircuit_in_loop")
                else:
                    body += inner
                    self.readouts += 1
            self.body = body
        else:
            self.body = stmts(2, 5)
        return self


# rendering ---------------------------------------------------------------------------------------

def r_arg(a):
    if a[0] == "pi":
        return f"{a[1]}[{a[2]}]"
    return a[1]


def r_stmt(s, ind=""):
    t = s[0]
    if t in ("gate", "call"):
        return ind + " ".join([s[1]] + [r_arg(a) for a in s[2]])
    if t == "seq":
        return ind + "{\n" + "\n".join(r_stmt(x, ind + "  ") for x in s[1]) + "\n" + ind + "}"
    if t == "par":
        return ind + "<\n" + ("\n" + ind + "|\n").join(r_stmt(x, ind + "  ") for x in s[1]) + "\n" + ind + ">"
    if t == "loop":
        return ind + f"loop {s[1]} {{\n" + "\n".join(r_stmt(x, ind + "  ") for x in s[2]) + "\n" + ind + "}"
    raise ValueError(s)


def render(g, macros=None, body=None):
    macros = g.macros if macros is None else macros
    body = g.body if body is None else body
    out = list(g.header)
    for name, params, kinds, mb in macros:
        out.append(f"macro {name} {' '.join(params)} {{\n" + "\n".join(r_stmt(x, "  ") for x in mb) + "\n}")
    out += [r_stmt(x) for x in body]
    return "\n".join(out) + "\n"


# ground truth ------------------------------------------------------------------------------------

def gate_positions(name, nargs):
    """argument positions that are qubits the gate acts on: "all" (busy) | [] (idle) | positions"""
    if name in BUSY:
        return "all"
    if name.startswith("I_"):
        return []
    if name == "PF":
        return [1]
    if name == "P":
        return [0]
    return list(range(nargs))


def ev_arg(a, env):
    if a[0] == "q":
        return ("q", a[2])
    if a[0] == "reg":
        return ("r", a[2])
    if a[0] == "num":
        return ("n",)
    if a[0] == "p":
        return env[a[1]]
    if a[0] == "pi":
        v = env[a[1]]
        assert v[0] == "r"
        return ("q", v[1][a[2]])
    raise ValueError(a)


def truth(g, s, env, allq, events):
    """the fundamental qubits some gate reachable from s acts on; events: "G" a gate given one qubit twice, "P" a parallel
    block with a branch sharing a qubit with an earlier branch, "B" a busy gate reached"""
    t = s[0]
    if t == "gate":
        pos = gate_positions(s[1], len(s[2]))
        if pos == "all":
            events.append("B")
            return set(allq)
        out = set()
        seen = set()
        for j, a in enumerate(s[2]):
            v = ev_arg(a, env)
            cur = {v[1]} if v[0] == "q" else set(v[1]) if v[0] == "r" else set()
            if seen & cur:
                events.append("G")  # also for idle gates: keep the programs plainly valid
            seen |= cur
            if j in pos:
                out |= cur
        return out
    if t == "call":
        m = next(m for m in g.macros if m[0] == s[1])
        env2 = {p: ev_arg(a, env) for p, a in zip(m[1], s[2])}
        out = set()
        for x in m[3]:
            out |= truth(g, x, env2, allq, events)
        return out
    if t in ("seq", "loop"):
        out = set()
        for x in s[-1]:
            out |= truth(g, x, env, allq, events)
        return out
    if t == "par":
        out = set()
        for x in s[1]:
            cur = truth(g, x, env, allq, events)
            if out & cur:
                events.append("P")
            out |= cur
        return out
    raise ValueError(s)


def as_used(fqs):
    d = {}
    for r, i in fqs:
        d.setdefault(r, set()).add(i)
    return {k: sorted(v) for k, v in d.items()}


def permute(s, rng):
    t = s[0]
    if t in ("gate", "call"):
        return s
    if t == "seq":
        return ("seq", [permute(x, rng) for x in s[1]])
    if t == "loop":
        return ("loop", s[1], [permute(x, rng) for x in s[2]])
    items = [permute(x, rng) for x in s[1]]
    rng.shuffle(items)
    return ("par", items)


def children(s):
    return s[1] if s[0] in ("seq", "par") else s[2] if s[0] == "loop" else None


def addresses(body, prefix=()):
    """block child indices; a loop does not consume an index"""
    out = []
    for i, s in enumerate(body):
        out.append((list(prefix) + [i], s))
        ch = children(s)
        if ch is not None:
            out += addresses(ch, tuple(prefix) + (i,))
    return out


def make_program(rng, world, reg, size, busy):
    """-> JSON-able program record with its ground truth"""
    for attempt in range(40):
        g = PGen(random.Random(rng.random()), world, reg, size, busy).build()
        allq = g.all_fq()
        ev = []
        tr = set()
        for s in g.body:
            tr |= truth(g, s, {}, allq, ev)
        if "G" not in ev:
            break
    else:
        raise RuntimeError("generator: no program without a repeated qubit in 40 attempts")
    stmts, ctxs = [], []
    for path, s in addresses(g.body):
        e2 = []
        u = truth(g, s, {}, allq, e2)
        stmts.append({"path": path, "used": as_used(u), "busy": "B" in e2})
        if s[0] == "call":
            m = next(m for m in g.macros if m[0] == s[1])
            env2 = {p: ev_arg(a, {}) for p, a in zip(m[1], s[2])}
            for k in [-1] + list(range(len(m[3]))):
                u2 = set()
                for x in (m[3] if k < 0 else [m[3][k]]):
                    u2 |= truth(g, x, env2, allq, [])
                ctxs.append({"path": path, "k": k, "used": as_used(u2)})
    rng.shuffle(stmts)
    rng.shuffle(ctxs)
    prng = random.Random(rng.random())
    pm = [(n, ps, ks, [permute(x, prng) for x in b]) for (n, ps, ks, b) in g.macros]
    pb = [permute(x, prng) for x in g.body]
    text = render(g)
    return {
        "reg": reg, "size": size, "busy": busy, "text": text, "perm_text": render(g, pm, pb),
        "used": as_used(tr), "conflict": "P" in ev, "all": as_used(allq), "readouts": g.readouts,
        "stmts": stmts[:4], "ctxs": ctxs[:4],
        "names": {"aliases": sorted((set(g.aliases) | set(g.qaliases)) - {reg}), "macros": [m[0] for m in g.macros],
                  "params": sorted({p for m in g.macros for p in m[1]})},
    }, g.feat


USED_OPS = ["used", "used_pipe", "used_stmt", "used_ctx"]
ACC_OPS_ANY = ["vp"]
ACC_OPS_BUSY = ["discover", "discover_pipe", "run", "outparse"]
PERM_OK = {"used", "used_pipe", "vp", "discover", "discover_pipe", "run", "outparse"}


def pick_call(rng, progs, pi, want_used=False):
    p = progs[pi]
    ops = ["used"] * 4 + ["used_pipe"] * 2 + ["vp"]
    if p["stmts"]:
        ops += ["used_stmt"] * 2
    if p["ctxs"]:
        ops += ["used_ctx"] * 2
    if p["busy"] and not want_used:
        ops += ["run"] * 3 + ["discover", "discover_pipe", "outparse"]
    op = rng.choice(ops)
    call = {"prog": pi, "op": op, "perm": False, "fresh": rng.random() < 0.25}
    if op == "used_stmt":
        call["stmt"] = rng.randrange(len(p["stmts"]))
    elif op == "used_ctx":
        call["ctx"] = rng.randrange(len(p["ctxs"]))
    elif op in PERM_OK and p["perm_text"] != p["text"] and rng.random() < 0.3:
        call["perm"] = True
    return call


def make_history(seed, idx, thorough=False):
    rng = random.Random(f"c13h:{seed}:{idx}")
    regs = rng.sample(REG_NAMES, rng.choice([1, 2, 2, 2, 3, 3, 4]))
    world = {
        "aliases": rng.sample(ALIAS_NAMES, 4) + [x for x in REG_NAMES if x in regs or rng.random() < 0.2],
        "macros": rng.sample(MACRO_NAMES, 3),
        "params": rng.sample(PARAM_NAMES, 4),
        "lets": rng.sample(LET_NAMES, 3),
        "p_conflict": rng.choice([0.0, 0.05, 0.15]),
    }
    nprog = rng.choice([2, 2, 3, 3, 4]) + (1 if thorough and rng.random() < 0.3 else 0)
    maxsize = 7 if thorough else 6
    shapes = []
    for i in range(nprog):
        for _ in range(30):
            # the first two programs have different register names whenever the history has two names
            nm = regs[i % len(regs)] if i < 2 else rng.choice(regs)
            sh = (nm, rng.randint(1 if rng.random() < 0.1 else 2, maxsize))
            if sh not in shapes:
                break
        shapes.append(sh)
    # same name, another size (both directions: larger first / smaller first)
    if nprog >= 3 and rng.random() < 0.6:
        b = rng.randrange(2, nprog)
        a = rng.randrange(b)
        shapes[b] = (shapes[a][0], rng.choice([s for s in range(1, maxsize + 1) if s != shapes[a][1]]))
    elif nprog == 2 and rng.random() < 0.25:
        shapes[1] = (shapes[0][0], rng.choice([s for s in range(1, maxsize + 1) if s != shapes[0][1]]))
    progs, feats = [], {}
    for i, (reg, size) in enumerate(shapes):
        busy = rng.random() < (0.75 if i else 0.85)
        p, f = make_program(rng, world, reg, size, busy)
        progs.append(p)
        for k in f:
            feats[k] = feats.get(k, 0) + 1
    L = rng.randint(3, 8)
    first = pick_call(rng, progs, 0)
    first["perm"] = False
    calls = [first]
    others = list(range(1, nprog))
    while len(calls) < L - 1:
        # every other program is visited at least once before the history ends; otherwise any program
        left = [i for i in others if all(c["prog"] != i for c in calls)]
        pi = rng.choice(left) if left and (rng.random() < 0.7 or L - 1 - len(calls) <= len(left)) else rng.randrange(nprog)
        calls.append(pick_call(rng, progs, pi, want_used=(rng.random() < 0.3)))
    last = dict(first)
    last["fresh"] = rng.random() < 0.3
    calls.append(last)
    # now and then the branch-permuted twin of an earlier call, right after another program ran
    if rng.random() < 0.5 and len(calls) < 8:
        cands = [c for c in calls[:-1] if c["op"] in PERM_OK and progs[c["prog"]]["perm_text"] != progs[c["prog"]]["text"]]
        if cands:
            c = dict(rng.choice(cands))
            c["perm"] = not c["perm"]
            calls.insert(len(calls) - 1, c)
    return {"id": idx, "seed": seed, "thorough": bool(thorough), "programs": progs, "calls": calls}, feats


# real code ---------------------------------------------------------------------------------------

def parse(text):
    L = lib()
    return L["parse_jaqal_string"](text, inject_pulses=L["G"], autoload_pulses=False)


def navigate(c, path):
    L = lib()
    s = c.body
    for i in path:
        while isinstance(s, L["LoopStatement"]):
            s = s.statements
        s = s.statements[i]
    return s


def norm_used(d):
    return {k: sorted(int(x) for x in v) for k, v in d.items() if len(v)}


def pipeline(c):
    L = lib()
    return L["expand_macros"](L["fill_in_let"](L["expand_subcircuits"](c)))


def trace_qubits(traces):
    out = []
    for tr in traces:
        fq = []
        for q in tr.used_qubits:
            reg, i = q.resolve_qubit()
            fq.append((reg.name, int(i)))
        out.append(as_used(fq))
    return out


def do_call(c, call, prog):
    """one entry point on one circuit -> JSON-able outcome {"ok": …} | {"err": class, "msg": …} (+ "sv" for run)"""
    L = lib()
    op = call["op"]
    if op == "used":
        f = lambda: norm_used(L["get_used_qubit_indices"](c))
    elif op == "used_pipe":
        f = lambda: norm_used(L["get_used_qubit_indices"](pipeline(c)))
    elif op == "used_stmt":
        st = prog["stmts"][call["stmt"]]
        if st["busy"]:
            def f():
                v0 = L["UsedQubitIndicesVisitor"]()
                v0.visit(c)
                v = L["UsedQubitIndicesVisitor"]()
                v.all_qubits = v0.all_qubits
                return norm_used(v.visit(navigate(c, st["path"]), context=None))
        else:
            f = lambda: norm_used(L["get_used_qubit_indices"](navigate(c, st["path"])))
    elif op == "used_ctx":
        cx = prog["ctxs"][call["ctx"]]

        def f():
            cs = navigate(c, cx["path"])
            body = cs.gate_def.body
            target = body if cx["k"] < 0 else body.statements[cx["k"]]
            return norm_used(L["get_used_qubit_indices"](target, context=dict(cs.parameters)))
    elif op == "vp":
        def f():
            L["VP"]().visit(c)
            return "accepted"
    elif op in ("discover", "discover_pipe"):
        def f():
            cc = pipeline(c) if op == "discover_pipe" else c
            return {"accepted": True, "trace_qubits": trace_qubits(L["DiscoverSubcircuits"]().visit(cc))}
    elif op == "run":
        def f():
            res = L["run_jaqal_circuit"](c)
            return {"accepted": True, "sv": [[[float(complex(z).real), float(complex(z).imag)] for z in sc.state_vector]
                                            for sc in res.subcircuits]}
    elif op == "outparse":
        def f():
            L["parse_jaqal_output_list"](c, [0] * prog["readouts"])
            return "accepted"
    else:
        raise ValueError(op)
    r = guarded(f)
    if r[0] == "ok":
        return {"ok": r[1]}
    return {"err": r[1], "msg": r[2]}


def expected_used(call, prog):
    op = call["op"]
    if op in ("used", "used_pipe"):
        return prog["used"]
    if op == "used_stmt":
        return prog["stmts"][call["stmt"]]["used"]
    if op == "used_ctx":
        return prog["ctxs"][call["ctx"]]["used"]
    return None


def brief(out):
    """outcome without the state vectors (for messages)"""
    if "ok" in out and isinstance(out["ok"], dict) and "sv" in out["ok"]:
        return {"ok": {"accepted": True, "subcircuits": len(out["ok"]["sv"])}}
    return out


def describe(h, upto):
    parts = []
    for j, c in enumerate(h["calls"][: upto + 1]):
        p = h["programs"][c["prog"]]
        parts.append(f"#{j} {c['op']}{'(perm)' if c['perm'] else ''} on program {c['prog']} [register {p['reg']}[{p['size']}]"
                     f"{', busy gates' if p['busy'] else ''}]")
    return "; ".join(parts)


def run_history(h):
    """-> (list of outcomes, list of (oracle, detail), counts per oracle)"""
    cache = {}
    outs, fails = [], []
    counts = {"used_exact_in_history": 0, "reject_iff_in_history": 0, "first_last_agree": 0, "order_in_history": 0}
    for j, call in enumerate(h["calls"]):
        prog = h["programs"][call["prog"]]
        key = (call["prog"], call["perm"])
        if call["fresh"] or key not in cache:
            pr = guarded(lambda: parse(prog["perm_text"] if call["perm"] else prog["text"]))
            if pr[0] != "ok":
                outs.append({"err": "parse:" + pr[1], "msg": pr[2]})
                fails.append(("used_exact_in_history" if call["op"] in USED_OPS else "reject_iff_in_history",
                              f"call #{j}: the generated program does not parse: {pr[1]} {pr[2][:200]}"))
                continue
            cache[key] = pr[1]
        c = cache[key]
        out = do_call(c, call, prog)
        outs.append(out)
        exp = expected_used(call, prog)
        if exp is not None:
            counts["used_exact_in_history"] += 1
            if out != {"ok": exp}:
                fails.append(("used_exact_in_history", f"call #{j} returned {json.dumps(out)}, the gates reachable act on exactly "
                                                       f"{json.dumps(exp)}; history: {describe(h, j)}"))
        else:
            counts["reject_iff_in_history"] += 1
            accepted = "ok" in out
            rejected = out.get("err") == "JaqalError"
            if prog["conflict"] and not rejected:
                fails.append(("reject_iff_in_history", f"call #{j}: two branches of a parallel block share a qubit but the outcome "
                                                       f"is {json.dumps(brief(out))}; history: {describe(h, j)}"))
            elif not prog["conflict"] and not accepted:
                fails.append(("reject_iff_in_history", f"call #{j}: no two branches of a parallel block share a qubit (program "
                                                       f"otherwise valid) but the outcome is {json.dumps(out)}; history: {describe(h, j)}"))
            if accepted and isinstance(out["ok"], dict) and "trace_qubits" in out["ok"]:
                counts["used_exact_in_history"] += 1
                bad = [t for t in out["ok"]["trace_qubits"] if t != prog["all"]]
                if bad:
                    fails.append(("used_exact_in_history", f"call #{j}: Trace.used_qubits {json.dumps(bad[0])} is not the set of all "
                                                           f"qubits of the circuit {json.dumps(prog['all'])}; history: {describe(h, j)}"))
    if len(outs) == len(h["calls"]) and len(outs) >= 2:
        counts["first_last_agree"] += 1
        if outs[0] != outs[-1]:
            fails.append(("first_last_agree", f"the first call returned {json.dumps(brief(outs[0]))}, the same call at the end of the "
                                              f"history {json.dumps(brief(outs[-1]))}"
                                              f"{' (state vectors differ)' if brief(outs[0]) == brief(outs[-1]) else ''}; "
                                              f"history: {describe(h, len(outs) - 1)}"))
        seen = {}
        for j, (call, out) in enumerate(zip(h["calls"], outs)):
            if call["op"] not in PERM_OK:
                continue
            key = (call["prog"], call["op"])
            if key in seen and seen[key][0]["perm"] != call["perm"]:
                counts["order_in_history"] += 1
                o0 = seen[key][1]
                same = (o0 == out) or ("err" in o0 and "err" in out and o0["err"] == out["err"] == "JaqalError")
                if not same:
                    fails.append(("order_in_history", f"call #{seen[key][2]} gave {json.dumps(brief(o0))}, call #{j} on the program with "
                                                      f"permuted branches {json.dumps(brief(out))}"
                                                      f"{' (state vectors differ)' if brief(o0) == brief(out) else ''}; "
                                                      f"history: {describe(h, j)}"))
            seen.setdefault(key, (call, out, j))
    return outs, fails, counts


def _bump(d, k, n=1):
    d[k] = d.get(k, 0) + n


def history_features(h, dist):
    ps = h["programs"]
    _bump(dist, f"history_len:{len(h['calls'])}")
    _bump(dist, f"programs_in_history:{len(ps)}")
    names = {p["reg"] for p in ps}
    if len(names) > 1:
        _bump(dist, "hist:different_register_names")
    if any(a["reg"] == b["reg"] and a["size"] != b["size"] for a in ps for b in ps):
        _bump(dist, "hist:same_register_name_other_size")
    if any(a is not b and a["reg"] in b["names"]["aliases"] for a in ps for b in ps):
        _bump(dist, "hist:alias_named_like_another_programs_register")
    for kind in ("aliases", "macros", "params"):
        if any(a is not b and set(a["names"][kind]) & set(b["names"][kind]) for a in ps for b in ps):
            _bump(dist, f"hist:{kind}_names_collide_between_programs")
    if any(p["busy"] for p in ps) and not all(p["busy"] for p in ps):
        _bump(dist, "hist:busy_and_busy_free_programs_mixed")
    seq = [h["calls"][j]["prog"] for j in range(len(h["calls"]))]
    if any(ps[a]["reg"] != ps[b]["reg"] and ps[b]["busy"] and h["calls"][j + 1]["op"] in USED_OPS
           for j, (a, b) in enumerate(zip(seq, seq[1:]))):
        _bump(dist, "hist:used_on_busy_program_right_after_other_register_name")
    for c in h["calls"]:
        _bump(dist, "op:" + c["op"])
        if c["perm"]:
            _bump(dist, "call:on_permuted_program")
        _bump(dist, "call:fresh_parse" if c["fresh"] else "call:shared_circuit_object")
    for p in ps:
        _bump(dist, "prog:conflict" if p["conflict"] else "prog:no_conflict")
        _bump(dist, "prog:busy" if p["busy"] else "prog:busy_free")
        _bump(dist, f"prog:size_{p['size']}")


def run(seed: int, n: int, driver: str = DEFAULT_DRIVER, thorough: bool = False) -> dict:
    lib()
    orc = {k: {"cases": 0, "failures": []} for k in
           ["used_exact_in_history", "reject_iff_in_history", "first_last_agree", "order_in_history"]}
    dist, samples, distinct = {}, [], set()
    for idx in range(max(n, 1)):
        h, feats = make_history(seed, idx, thorough)
        for k, v in feats.items():
            _bump(dist, "gen:" + k, v)
        history_features(h, dist)
        outs, fails, counts = run_history(h)
        for k, v in counts.items():
            orc[k]["cases"] += v
        for out, c in zip(outs, h["calls"]):
            _bump(dist, "outcome:" + ("ok" if "ok" in out else out["err"]) + ":" + ("used" if c["op"] in USED_OPS else c["op"]))
        reported = set()
        for name, detail in fails:
            if name in reported:
                orc[name]["more_failures"] = orc[name].get("more_failures", 0) + 1
                continue
            reported.add(name)
            if len(orc[name]["failures"]) < 20:
                orc[name]["failures"].append({"case": h, "detail": detail})
            else:
                orc[name]["more_failures"] = orc[name].get("more_failures", 0) + 1
        if len({(p["reg"], p["size"]) for p in h["programs"]}) > 1:
            distinct.add(json.dumps([[p["text"] for p in h["programs"]], h["calls"]], sort_keys=True))
        if len(samples) < 3:
            samples.append(h)
    _self_contained_first(orc)
    return {"corr": {}, "oracle": orc, "distribution": dist, "samples": samples, "nontrivial": len(distinct)}


def _isolated_ok(case):
    """replay one history in a FRESH interpreter (same sys.path): True / False, None when that could not be done"""
    import subprocess
    env = dict(os.environ)
    env["PYTHONPATH"] = os.pathsep.join([p for p in sys.path if p])
    code = ("import sys, json; from harness.agents import c13_history as m; "
            "print('ISOLATED', json.dumps(m.replay(json.load(sys.stdin), prelude=False)['oracle_ok']))")
    try:
        p = subprocess.run([sys.executable, "-W", "ignore", "-c", code], input=json.dumps(case), capture_output=True, text=True,
                           timeout=300, env=env, cwd=__import__("os").path.dirname(__import__("os").path.dirname(__import__("os").path.dirname(__import__("os").path.abspath(__file__)))))
        for line in p.stdout.split("\n"):
            if line.startswith("ISOLATED "):
                return json.loads(line[9:])
    except Exception:
        pass
    return None


def _self_contained_first(orc, budget=6):
    """State carried over between calls also carries over between the histories of one run.  The first failure reported for an
    oracle should fail on its own in a fresh process: look for one (a few subprocesses, only when there are failures)."""
    verdict = {}
    for name, d in orc.items():
        for i, f in enumerate(d["failures"]):
            key = (f["case"]["seed"], f["case"]["id"])
            if key not in verdict:
                if budget <= 0:
                    break
                budget -= 1
                verdict[key] = _isolated_ok(f["case"])
            if verdict[key] is False:
                f["detail"] += " [fails on its own in a fresh process]"
                d["failures"].insert(0, d["failures"].pop(i))
                break
        else:
            for f in d["failures"]:
                if verdict.get((f["case"]["seed"], f["case"]["id"])) is True:
                    f["detail"] += (" [passes on its own in a fresh process: the state comes from the histories that ran before it; "
                                    "replay re-runs histories 0..id-1 of this seed first]")


def replay(case: dict, driver: str = DEFAULT_DRIVER, prelude: bool = True) -> dict:
    """the history alone; if it passes alone and it came out of run(), once more after the histories run() ran before it"""
    lib()
    outs, fails, counts = run_history(case)
    note = ""
    if not fails and prelude and isinstance(case.get("id"), int) and "seed" in case:
        for idx in range(case["id"]):
            run_history(make_history(case["seed"], idx, case.get("thorough", False))[0])
        outs, fails, counts = run_history(case)
        if fails:
            note = f"after histories 0..{case['id'] - 1} of seed {case['seed']} (alone in a fresh process the history passes): "
    return {"oracle_ok": not fails,
            "detail": note + ("; ".join(f"{a}: {b}" for a, b in fails) or "no oracle failure"),
            "outcomes": [brief(o) for o in outs]}


def main():
    ap = argparse.ArgumentParser()
    ap.add_argument("--driver", default=DEFAULT_DRIVER)
    ap.add_argument("--seed", type=int, default=0)
    ap.add_argument("--n", type=int, default=400)
    ap.add_argument("--thorough", action="store_true")
    ap.add_argument("--verbose", action="store_true")
    a = ap.parse_args()
    res = run(a.seed, a.n, a.driver, a.thorough)
    bad = 0
    for k, v in res["oracle"].items():
        nf = len(v["failures"]) + v.get("more_failures", 0)
        bad += nf
        print(f"oracle {k:26s} cases {v['cases']:6d} failures {nf}")
        for f in v["failures"][: (20 if a.verbose else 1)]:
            print("    " + f["detail"][:1200])
            if a.verbose:
                for i, p in enumerate(f["case"]["programs"]):
                    print(f"    --- program {i}\n      " + p["text"].replace("\n", "\n      "))
    print("distribution", json.dumps(res["distribution"], sort_keys=True))
    print("nontrivial", res["nontrivial"])
    sys.exit(1 if bad else 0)


if __name__ == "__main__":
    main()
