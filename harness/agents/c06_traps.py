#!/venv/bin/python
"""C06 against PYTHON-LEVEL TRAPS: confusable / run-time names, scopes of nested macro calls, numeric FORM of indices,
exception paths, re-entrancy, derived gate definitions, shared objects, empty blocks (oracles only, no Lean driver).

    PYTHONPATH=/verif JAQALPAQ_RUN_EMULATOR=1 /venv/bin/python -W ignore /verif/harness/agents/c06_traps.py [--seed 0] [--n 60] [--thorough]

The earlier C06 streams (pass2_diff, emu_diff, c06_edge, c06_scale) call every register `r`, every alias a / b / c / d,
every macro parameter p<j>_<k> / i<j>_<k> (all names unique in the program and none a substring of another), let a macro
call at most one other macro, pass the arguments straight through, look at one fresh circuit once, and use the plain
injected gate table.  This stream keeps the property and varies exactly those dimensions.  Every expectation comes from
the reference in this file: the program is a small AST; a register denotes the list [start + i*step for i in
range(count)] of fundamental indices composed along its chain; a macro call is evaluated by binding the VALUES of its
arguments (call by value, lexical scope: a parameter is visible in the body of its own macro only).

dimensions (all random, a case may combine them; `family` names the one that is forced)
  names     the register, the aliases, the lets, the macros and the macro parameters take their names from ONE pool of
            confusable identifiers (q q0 q1 q00 qq q_ a ab abc ba r ar ctrl arg k k1 i ii x xq ...): names are
            substrings / prefixes / suffixes of each other in every direction (parameter contains the register name,
            the register name contains a parameter name, alias contains let ...), declared in shuffled order; nothing
            is ever SHADOWED (a parameter never has the name of a global); all name strings are created at run time
  nest      macros that call macros (depth <= 3) whose parameters have the SAME names in a different order / role, are
            passed DIFFERENT qubits and indices than the caller's parameter of that name, with the caller's parameter
            used again AFTER the nested call; arguments forwarded, literal, let constants (Parameter -> Constant -> int),
            alias elements, single-qubit aliases; the same macro called twice with different arguments
  numform   an index / bound written as int, integral float, -0.0 / 0.0, numpy int64 / float64 (s-expression and
            builder entries; a front end that rejects a numpy form is not held against the library), let constants
            with integral-float values, the same let used as bound and as index
  empty     macros with an empty body, loops over an empty block, empty sequential blocks next to alias references
  derived   gate definitions derived with copy(name=) / copy(parameters=) / copy(ideal_unitary=), idle gates of gates,
            of copies and of idle gates, acting on alias elements (the emulator must still act on the denoted qubit)
  shared    the SAME NamedQubit / argument list object at several places of one program (builder and s-expression
            entries); registers, lets and macros of circuit A reused to build circuit B
  history   a call that FAILS half-way in the same process (front end on a twin with an index outside its alias,
            fill_in_map on a twin whose macro parameter really shadows the register / whose later macro is broken,
            used-qubit analysis / resolution under an unusable context, run of a broken twin), then every consumer again
            on the SAME circuit object and on a fresh one
  reentry   consumers on the results of other entry points: fill_in_map twice, fill_in_map of expand_macros and expand_macros
            of fill_in_map, fill_in_let first, generated text of the filled circuit parsed again, run - transform - run
  order     the views of one emulator result read in either order (by_str before by_int before state_vector ...); used-
            qubit analysis of the circuit before / after that of its statements

oracles
  C06t_yields         a front end / pass / run on a valid program returns (JaqalError only where the property's check
                      documents that the pass is not applicable: fill_in_map on a macro body indexed by a parameter)
  C06t_resolve        NamedQubit.resolve_qubit of every reference == (the fundamental register, the reference index):
                      top level without context, inside a macro body under the context of each call that reaches it
  C06t_used           get_used_qubit_indices of every statement (top level, and inside macro bodies under the context of
                      the call) and of the circuit == the set of reference indices
  C06t_fill           fill_in_map rewrites every reference that does not depend on a parameter to fundamental[index]
                      (alias_from fundamental, alias_index == index) and the other consumers give the same answers on
                      the result
  C06t_emulator       registers of <= 6 qubits: state vector of run_jaqal_circuit == the gates applied here on the
                      reference indices; simulated_probability_by_int / by_str == |amplitude|^2 of that state
  C06t_after_failure  the same five statements evaluated again after a failed call in the same process (same object and
                      fresh object)
  C06t_unchanged      the circuit handed to a (failed or successful) pass has the same repr afterwards
"""
import argparse
import json
import os
import random
import signal
import sys
import warnings

DEFAULT_DRIVER = "/verif/lean/.lake/build/bin/jaqal-model"
ORACLES = ("C06t_yields", "C06t_resolve", "C06t_used", "C06t_fill", "C06t_emulator", "C06t_after_failure",
           "C06t_unchanged")
FAMILIES = ("names", "nest", "numform", "empty", "derived", "shared", "history", "reentry", "order")
EMU_MAX = 6
# idle gates occupy no qubit for the used-qubit analysis (IdleGateDefinition.used_qubits is empty by design, C13's matter)
IDLE = {"I_X", "I_CX", "I_P", "I_X2", "I_I_Z", "Yi"}
_L = {}


def lib():
    if _L:
        return _L
    os.environ["JAQALPAQ_RUN_EMULATOR"] = "1"
    root = os.path.dirname(os.path.dirname(os.path.dirname(os.path.abspath(__file__))))
    if not os.path.isfile(os.path.join(root, "harness", "gates.py")):
        root = "/verif"
    if root not in sys.path:
        sys.path.insert(0, root)
    import numpy as np
    from harness import timeouts as T
    from harness import gates as HG
    from jaqalpaq.error import JaqalError
    from jaqalpaq.parser import parse_jaqal_string
    from jaqalpaq.core.algorithm import expand_macros, fill_in_let, expand_subcircuits
    from jaqalpaq.core.algorithm.fill_in_map import fill_in_map
    from jaqalpaq.core.algorithm.used_qubit_visitor import get_used_qubit_indices
    from jaqalpaq.core.circuitbuilder import build, CircuitBuilder, SequentialBlockBuilder
    from jaqalpaq.core.constant import Constant
    from jaqalpaq.core.parameter import Parameter, ParamType
    from jaqalpaq.core.register import Register, NamedQubit
    from jaqalpaq.core.gate import GateStatement
    from jaqalpaq.core.gatedef import IdleGateDefinition
    from jaqalpaq.core.block import BlockStatement, LoopStatement
    from jaqalpaq.core.macro import Macro
    from jaqalpaq.generator import generate_jaqal_program
    from jaqalpaq.run import run_jaqal_circuit
    G = dict(HG.GATES_IDLE)
    Q = ParamType.QUBIT
    G["X2"] = HG.GATES["X"].copy(name="X2")
    G["I_X2"] = IdleGateDefinition(G["X2"])
    G["I_I_Z"] = IdleGateDefinition(IdleGateDefinition(HG.GATES["Z"]))
    G["Yi"] = IdleGateDefinition(HG.GATES["Y"]).copy(name="Yi")
    G["SXc"] = HG.GATES["SX"].copy(name="SXc", parameters=[Parameter("t", Q)])
    G["XZ"] = HG.GATES["X"].copy(name="XZ", ideal_unitary=HG.U_Z)
    G["CXr"] = HG.GATES["CX"].copy(name="CXr", parameters=[Parameter("tt", Q), Parameter("t", Q)])
    G["Pc"] = HG.GATES["P"].copy(name="Pc", parameters=[Parameter("qq", Q), Parameter("kk", ParamType.INT)])
    G["NSu"] = HG.GATES["SWAP"].copy(name="NSu", ideal_unitary=HG.U_NS)
    U = {k: v.ideal_unitary for k, v in HG.GATES.items()}
    U.update({"X2": HG.U_X, "I_X2": None, "I_I_Z": None, "Yi": None, "SXc": HG.U_SX, "XZ": HG.U_Z, "CXr": HG.U_CX,
              "Pc": HG.U_P, "NSu": HG.U_NS, "I_X": None, "I_CX": None, "I_P": None})
    SIG = dict(HG.SIG)
    SIG.update({"X2": "q", "I_X2": "q", "I_I_Z": "q", "Yi": "q", "SXc": "q", "XZ": "q", "CXr": "qq", "Pc": "qi",
                "NSu": "qq", "I_X": "q", "I_CX": "qq", "I_P": "qi"})
    _L.update(np=np, T=T, HG=HG, GATES=G, U=U, SIG=SIG, JaqalError=JaqalError, parse=parse_jaqal_string,
              expand_macros=expand_macros, fill_in_let=fill_in_let, expand_subcircuits=expand_subcircuits,
              fill_in_map=fill_in_map, used=get_used_qubit_indices, build=build, CircuitBuilder=CircuitBuilder,
              SequentialBlockBuilder=SequentialBlockBuilder, Constant=Constant, Parameter=Parameter, Register=Register,
              NamedQubit=NamedQubit, GateStatement=GateStatement, BlockStatement=BlockStatement,
              LoopStatement=LoopStatement, Macro=Macro, run=run_jaqal_circuit, gen=generate_jaqal_program)
    return _L


class Hang(BaseException):
    pass


def _on_alarm(_s, _f):
    raise Hang()


def guarded(f):
    """-> ("ok", value) | ("rej", message) for JaqalError | ("exc", class, message) | ("hang", "", "")"""
    L = lib()
    try:
        old = signal.signal(signal.SIGALRM, _on_alarm)
    except ValueError:
        old = None
    if old is not None:
        signal.alarm(int(L["T"].limit()))
    try:
        with warnings.catch_warnings():
            warnings.simplefilter("ignore")
            return ("ok", f())
    except Hang:
        L["T"].saw_hang()
        return ("hang", "", "")
    except L["JaqalError"] as e:
        return ("rej", str(e)[:200])
    except RecursionError:
        return ("exc", "RecursionError", "")
    except Exception as e:  # noqa: BLE001
        return ("exc", type(e).__name__, str(e)[:200])
    finally:
        if old is not None:
            signal.alarm(0)
            signal.signal(signal.SIGALRM, old)


def short(x, k=300):
    s = x if isinstance(x, str) else json.dumps(x, default=str)
    return s[:k]


def fresh(s):
    """the same identifier as a string object created at run time (never interned)"""
    return "".join(list(s))


# ------------------------------------------------------------------------------------------------------------------
# the reference
#
# program P = {"lets": [[name, text]], "reg": [name, size], "maps": [map], "macros": [[name, [[pname, kind]], [stmt]]],
#              "body": [stmt], "emulate": bool}
#   map  = {"name", "src", "kind": "whole"} | {.., "kind": "qubit", "index": v} | {.., "kind": "slice", "start", "stop", "step"}
#   stmt = ["gate", gname, [arg]] | ["call", mname, [arg]] | ["loop", count, [stmt]] | ["par", [stmt]] | ["seq", [stmt]]
#   arg  = ["q", register, index] | ["n", name] | ["i", v]         v / index / count = int | identifier (let or parameter)

def let_value(text):
    f = float(text)
    assert f == int(f)
    return int(text) if text.lstrip("-").isdigit() else int(f)


def count_range(start, stop, step):
    if step > 0:
        return (stop - start + step - 1) // step if stop > start else 0
    return (start - stop - step - 1) // (-step) if start > stop else 0


class Den:
    def __init__(self, P):
        self.P = P
        self.lets = {n: let_value(t) for n, t in P["lets"]}
        self.R = P["reg"][0]
        self.regs = {self.R: ("fund", self.gval(P["reg"][1]))}
        self.qal = {}
        for m in P["maps"]:
            if m["kind"] == "whole":
                self.regs[m["name"]] = ("whole", m["src"])
            elif m["kind"] == "qubit":
                self.qal[m["name"]] = self.elem(m["src"], self.gval(m["index"]))
            else:
                n = self.length(m["src"])
                start = 0 if m["start"] is None else self.gval(m["start"])
                stop = n if m["stop"] is None else self.gval(m["stop"])
                step = 1 if m["step"] is None else self.gval(m["step"])
                self.regs[m["name"]] = ("slice", m["src"], start, step, count_range(start, stop, step))
        self.macros = {m[0]: m for m in P["macros"]}

    def gval(self, v):
        return self.lets[v] if isinstance(v, str) else int(v)

    def val(self, v, env):
        if isinstance(v, str):
            if v in env:
                assert env[v][0] == "i"
                return env[v][1]
            return self.lets[v]
        return int(v)

    def length(self, name):
        r = self.regs[name]
        return r[1] if r[0] == "fund" else self.length(r[1]) if r[0] == "whole" else r[4]

    def elem(self, name, i):
        if not (0 <= i < self.length(name)):
            return None
        r = self.regs[name]
        if r[0] == "fund":
            return i
        if r[0] == "whole":
            return self.elem(r[1], i)
        return self.elem(r[1], r[2] + i * r[3])

    def qubit(self, a, env):
        if a[0] == "q":
            return self.elem(a[1], self.val(a[2], env))
        if a[1] in env:
            assert env[a[1]][0] == "q"
            return env[a[1]][1]
        return self.qal[a[1]]

    def bind(self, mname, args, env):
        _, params, _ = self.macros[mname]
        assert len(params) == len(args)
        return {p: (("q", self.qubit(a, env)) if k == "q" else ("i", self.val(a[1], env))) for (p, k), a in zip(params, args)}

    def ops(self, stmts, env, unroll, out=None):
        """gate applications [(name, [qubit], [classical])] in program order"""
        out = [] if out is None else out
        for s in stmts:
            if s[0] == "gate":
                qs = [self.qubit(a, env) for a in s[2] if a[0] != "i"]
                cs = [self.val(a[1], env) for a in s[2] if a[0] == "i"]
                out.append((s[1], qs, cs))
            elif s[0] == "call":
                self.ops(self.macros[s[1]][2], self.bind(s[1], s[2], env), unroll, out)
            elif s[0] == "loop":
                for _ in range(self.val(s[1], env) if unroll else 1):
                    self.ops(s[2], env, unroll, out)
            else:
                self.ops(s[1], env, unroll, out)
        return out

    def uses(self, stmts, env):
        """the qubits the statements act on with a gate that is not an idle gate"""
        return {q for nm, qs, _ in self.ops(stmts, env, False) if nm not in IDLE for q in qs}

    def valid(self, stmts, env):
        """every reference is an element of its alias, a gate acts on different qubits, parallel branches are disjoint"""
        for s in stmts:
            if s[0] in ("gate", "call"):
                qs = [self.qubit(a, env) for a in s[2] if a[0] != "i"]
                if None in qs:
                    return False
                if s[0] == "gate" and len(set(qs)) != len(qs):
                    return False
                if s[0] == "call" and not self.valid(self.macros[s[1]][2], self.bind(s[1], s[2], env)):
                    return False
            elif s[0] == "loop":
                if not self.valid(s[2], env):
                    return False
            else:
                if not self.valid(s[1], env):
                    return False
                if s[0] == "par":
                    seen = set()
                    for x in s[1]:
                        qs = {q for _, qq, _ in self.ops([x], env, False) for q in qq}
                        if qs & seen:
                            return False
                        seen |= qs
        return True


def index_by_param(P):
    """some macro body indexes a register by a parameter (fill_in_map is not applicable before expansion)"""
    def has(stmts, params):
        for s in stmts:
            if s[0] in ("gate", "call"):
                if any(a[0] == "q" and a[2] in params for a in s[2]):
                    return True
            elif has(s[2] if s[0] == "loop" else s[1], params):
                return True
        return False
    return any(has(body, {p for p, _ in params}) for _, params, body in P["macros"])


# ------------------------------------------------------------------------------------------------------------------
# generator

BASES = ["q", "r", "a", "x", "k", "i", "t", "b"]
SUFF = ["", "0", "1", "00", "_", "b", "q", "r", "a", "x0"]
WORDS = ["ctrl", "arg", "target", "reg", "aq", "qa", "ar", "ra", "odd", "od", "dd", "top", "to", "op", "qq", "rr", "ab",
         "abc", "ba", "bc", "iq", "qi", "kq", "xq", "q0q", "r_r", "q1", "q10", "q01", "k1", "k10", "ii", "xx", "tq"]
RESERVED = {"let", "map", "register", "macro", "loop", "from", "usepulses", "subcircuit", "branch", "import", "reg",
            "prepare_all", "measure_all", "pi"}
G1 = ["X", "X", "Y", "Z", "S", "SX", "P", "PF", "N"]
G2 = ["CX", "CX", "CZ", "SWAP", "ISWAP", "NS", "HH"]
G1D = ["X2", "I_X2", "I_I_Z", "Yi", "SXc", "XZ", "Pc", "I_X", "I_P", "X"]
G2D = ["CXr", "NSu", "I_CX", "CX"]


def name_pool(rng):
    pool = {b + s for b in BASES for s in SUFF} | set(WORDS)
    pool = sorted(n for n in pool if n not in RESERVED)
    rng.shuffle(pool)
    return pool


def contains_rel(a, b):
    return a != b and (a in b or b in a)


class Gen:
    def __init__(self, rng, family, thorough):
        self.rng = rng
        self.family = family
        self.feat = set()
        self.plain_names = family not in ("names", "nest", "history") and rng.random() < 0.5
        self.pool = name_pool(rng)
        self.taken = set()
        self.pnames = set()
        self.lets = []

    def new_name(self, near=None, role=""):
        """a new global name; with `near` a name that contains / is contained in one of the given names"""
        r = self.rng
        cands = [n for n in self.pool if n not in self.taken and n not in self.pnames]
        if near:
            rel = [n for n in cands if any(contains_rel(n, x) for x in near)]
            if rel and r.random() < 0.8:
                cands = rel
                self.feat.add(f"{role} name is a sub/superstring of another name")
        n = self.rng.choice(cands[:10]) if cands else f"z{len(self.taken)}"
        while n in self.taken or n in self.pnames:
            n += "_"
        self.taken.add(n)
        return n

    def let_for(self, v, floats=True):
        r = self.rng
        same = [n for n, t in self.lets if let_value(t) == v]
        if same and r.random() < 0.5:
            return r.choice(same)
        text = str(v)
        if floats and r.random() < (0.5 if self.family == "numform" else 0.15):
            text = ("-0.0" if r.random() < 0.5 else "0.0") if v == 0 else f"{v}.0"
            self.feat.add("let with an integral-float value")
        n = self.new_name(near=list(self.taken), role="let") if not self.plain_names else f"k{len(self.lets)}"
        self.taken.add(n)
        self.lets.append([n, text])
        return n

    def rep(self, v, role, default_ok=False, plet=0.3):
        c = self.rng.random()
        if default_ok and c < 0.3:
            return None
        if c < 0.3 + plet:
            self.feat.add(f"let-valued {role}")
            return self.let_for(v)
        return v


def gen_program(rng, family, thorough):
    g = Gen(rng, family, thorough)
    r = rng
    emulate = r.random() < (0.75 if family in ("derived", "order", "reentry") else 0.55)
    size = r.choice([3, 4, 5, 6, 6]) if emulate else r.choice([4, 6, 7, 9, 12, 17, 40])
    R = g.new_name(role="register") if not g.plain_names else "r"
    g.taken.add(R)
    lens = {R: size}
    maps = []
    prev = R
    depth = r.choice([1, 1, 2, 2, 3])
    for d in range(depth):
        src = prev if r.random() < 0.8 else r.choice(list(lens))
        n = lens[src]
        if n < 1:
            break
        name = g.new_name(near=list(g.taken), role="alias") if not g.plain_names else "abcdef"[d]
        g.taken.add(name)
        if r.random() < 0.1:
            maps.append({"name": name, "src": src, "kind": "whole"})
            lens[name] = n
        else:
            step = r.choice([1, 1, 2, 2, 3, -1, -2])
            if abs(step) >= n:
                step = 1
            if step > 0:
                start = r.randint(0, max(0, n - 1 - step))
                cnt = r.randint(1, (n - 1 - start) // step + 1)
                lo, hi = start + (cnt - 1) * step + 1, min(n, start + cnt * step)
            else:
                start = r.randint(1, n - 1)
                cnt = r.randint(1, (start - 1) // (-step) + 1)
                lo, hi = max(0, start + cnt * step), start + (cnt - 1) * step - 1
            stop = r.randint(lo, hi)
            assert count_range(start, stop, step) == cnt
            maps.append({"name": name, "src": src, "kind": "slice",
                         "start": g.rep(start, "start", start == 0 and step > 0),
                         "stop": g.rep(stop, "stop", stop == n and step > 0),
                         "step": g.rep(step, "step", step == 1)})
            lens[name] = cnt
            if step < 0:
                g.feat.add("negative step")
        prev = name
    qals = []
    for _ in range(r.choice([0, 1, 1, 2])):
        src = r.choice(list(lens))
        name = g.new_name(near=list(g.taken), role="single-qubit alias") if not g.plain_names else f"s{len(qals)}"
        g.taken.add(name)
        maps.append({"name": name, "src": src, "kind": "qubit", "index": g.rep(r.randrange(lens[src]), "index of a single-qubit alias")})
        qals.append(name)
    derived = family == "derived" or r.random() < 0.15
    g1, g2 = (G1D, G2D) if derived else (G1, G2)
    if derived:
        g.feat.add("derived gate definitions")

    p_index = 0.1 if family in ("names", "history", "reentry") else 0.35

    def reg_pick():
        return prev if r.random() < 0.6 else r.choice(list(lens))

    def gref(scope):
        """a reference usable in `scope` = {"q": [qubit parameters], "i": [int parameters]} -> arg"""
        c = r.random()
        if scope["q"] and c < 0.4:
            return ["n", r.choice(scope["q"])]
        if scope["i"] and c < 0.4 + p_index:
            return ["q", reg_pick(), r.choice(scope["i"])]
        if qals and c < 0.85:
            return ["n", r.choice(qals)]
        name = reg_pick()
        i = r.choice([0, lens[name] - 1, r.randrange(lens[name])])
        return ["q", name, g.rep(i, "index", plet=0.25)]

    def ggate(scope):
        two = r.random() < 0.3
        name = r.choice(g2 if two else g1)
        sig = lib()["SIG"][name]
        return ["gate", name, [gref(scope) if ch == "q" else ["i", r.choice([0, 1, 2, 3, 5])] for ch in sig]]

    # macros: a macro may call the macros defined before it
    macros = []
    nm = {"nest": r.choice([2, 3, 3, 4]), "names": r.choice([1, 2, 3]), "empty": r.choice([1, 2])}.get(family, r.choice([0, 1, 2, 2, 3]))
    pnames_shared = []
    for j in range(nm):
        mname = g.new_name(near=list(g.taken), role="macro") if not g.plain_names else f"M{j}"
        g.taken.add(mname)
        np_ = r.choice([1, 2, 2, 3])
        params = []
        prefer = None
        if macros and r.random() < (0.7 if family == "nest" else 0.25):
            # the parameters of a macro defined before, in another order (and sometimes in another role): the calls of
            # that macro from this body then bind a name the caller has too, usually to something else
            prefer = r.choice([m for m in macros if m[1]] or macros)
            same_kind = r.random() < 0.65
            params = [[p, k if same_kind else r.choice("qi")] for p, k in prefer[1]]
            r.shuffle(params)
            if not any(k == "q" for _, k in params) and params:
                params[0][1] = "q"
            np_ = r.choice([0, 0, 1])
            g.feat.add("macro has the parameter names of a macro it calls" + ("" if same_kind else ", other kinds"))
        for _ in range(np_):
            kind = "q" if r.random() < 0.6 else "i"
            cands = [n for n in g.pool if n not in g.taken and n not in [p for p, _ in params]]
            reuse = [n for n in pnames_shared if n not in [p for p, _ in params]]
            if reuse and r.random() < (0.75 if family == "nest" else 0.5):
                p = r.choice(reuse)                       # the same parameter name in several macros (any kind)
                g.feat.add("parameter name used by several macros")
            else:
                rel = [n for n in cands if any(contains_rel(n, x) for x in g.taken)]
                glob = r.choice(sorted(g.taken))
                made = [glob + r.choice(["0", "1", "_", "x", "q"]), r.choice(["c", "t", "a", "_"]) + glob,
                        r.choice(["c", "t"]) + glob + r.choice(["0", "l"]), R + r.choice(["0", "1", "_"]), R + R]
                made = [n for n in made if n not in g.taken and n not in RESERVED and n not in [q for q, _ in params]
                        and not n[0].isdigit()]
                if not g.plain_names and made and r.random() < 0.5:
                    p = r.choice(made)
                    g.feat.add("parameter name contains " + ("the register name" if R in p else "a global name"))
                elif not g.plain_names and rel and r.random() < 0.6:
                    p = r.choice(rel[:8])
                    g.feat.add("parameter name is a sub/superstring of a global name")
                elif g.plain_names:
                    p = r.choice(["x", "y", "p", "u", "v", "w"])
                    if p in [q for q, _ in params]:
                        p = f"p{j}_{len(params)}"
                else:
                    p = cands[0]
            params.append([p, kind])
            pnames_shared.append(p)
            g.pnames.add(p)
        scope = {"q": [p for p, k in params if k == "q"], "i": [p for p, k in params if k == "i"]}
        body = []
        if family == "empty" and r.random() < 0.5:
            g.feat.add("macro with an empty body")
        else:
            nst = r.choice([1, 2, 2, 3])
            for t in range(nst):
                c = r.random()
                if macros and c < (0.6 if family == "nest" else 0.35):
                    callee = prefer if prefer is not None and r.random() < 0.8 else r.choice(macros)
                    args = []
                    for p, k in callee[1]:
                        if k == "q":
                            args.append(gref(scope))
                        else:
                            cc = r.random()
                            cands = [lens[n] for n in lens]
                            v = r.randrange(max(1, min(cands)))
                            if scope["i"] and cc < 0.4:
                                args.append(["i", r.choice(scope["i"])])
                            elif cc < 0.7:
                                args.append(["i", g.let_for(v)])
                                g.feat.add("let constant passed as macro argument")
                            else:
                                args.append(["i", v])
                    body.append(["call", callee[0], args])
                    g.feat.add("macro calls a macro")
                    if t < nst - 1:
                        g.feat.add("statements after a nested call")
                elif c < 0.85:
                    body.append(ggate(scope))
                elif c < 0.93:
                    body.append(["loop", g.rep(r.choice([1, 2, 3]), "loop count", plet=0.2), [ggate(scope)]])
                else:
                    body.append(["loop", 2, []])
                    g.feat.add("loop over an empty block")
        macros.append([mname, params, body])

    def gcall(scope):
        m = r.choice(macros)
        args = []
        for p, k in m[1]:
            if k == "q":
                args.append(gref(scope))
            else:
                v = r.randrange(max(1, min(lens.values())))
                c = r.random()
                if c < 0.45:
                    args.append(["i", g.let_for(v)])
                    g.feat.add("let constant passed as macro argument")
                else:
                    args.append(["i", v])
        return ["call", m[0], args]

    top = {"q": [], "i": []}
    body = []
    for _ in range(r.choice([1, 2, 3, 4])):
        c = r.random()
        if macros and c < 0.55:
            s = gcall(top)
            if r.random() < 0.2:
                s = ["loop", g.rep(r.choice([1, 2, 3]), "loop count", plet=0.2), [s]]
                g.feat.add("macro call in a loop")
        elif c < 0.75:
            s = ggate(top)
        elif c < 0.85:
            s = ["loop", r.choice([1, 2, 3]), [ggate(top), ggate(top)]]
        elif c < 0.95:
            s = ["par", [ggate(top), gcall(top) if macros and r.random() < 0.4 else ggate(top)]]
        else:
            s = ["loop", 2, []]
            g.feat.add("loop over an empty block")
        body.append(s)
    if macros and family in ("nest", "names", "history"):
        body.append(gcall(top))
    # every index that may be out of range is filtered by validity below
    lets = g.lets[:]
    order = list(range(len(lets)))
    if r.random() < 0.5:
        lets.sort(key=lambda x: x[0], reverse=True)
        g.feat.add("lets declared in descending order")
    P = {"lets": lets, "reg": [R, g.rep(size, "register size", plet=0.2) if False else size], "maps": maps,
         "macros": macros, "body": body, "emulate": emulate}
    del order
    return P, g


def gen_case(rng, idx, thorough=False, family=None):
    L = lib()
    family = family or FAMILIES[idx % len(FAMILIES)]
    for _ in range(200):
        P, g = gen_program(rng, family, thorough)
        try:
            den = Den(P)
            ok = den.valid(P["body"], {}) and all(den.length(n) >= 1 for n in den.regs)
        except (AssertionError, KeyError):
            ok = False
        if not ok:
            continue
        nops = len(den.ops(P["body"], {}, True))
        if nops == 0 or nops > 80:
            continue
        if family == "nest" and "macro calls a macro" not in g.feat:
            continue
        break
    else:
        raise RuntimeError("no valid program found")
    entry = rng.choice({"numform": ["sexpr", "sexpr", "builder", "text"], "shared": ["sexpr", "builder"],
                        "empty": ["text", "sexpr", "sexpr"]}.get(family, ["text", "text", "sexpr", "builder"]))
    case = {"id": idx, "family": family, "entry": entry, "P": P, "forms": None, "share": False, "plan": [],
            "order": rng.sample(["state", "int", "str"], 3), "used_first": rng.random() < 0.5, "seed": rng.randrange(10**9)}
    if entry != "text" and (family == "numform" or rng.random() < 0.2):
        case["forms"] = rng.choice([["float"], ["np_int"], ["np_float"], ["float", "np_int", "np_float", "int"]])
    if entry != "text" and (family == "shared" or rng.random() < 0.3):
        case["share"] = True
    if family == "empty" and entry == "sexpr":
        P["body"].insert(rng.randrange(len(P["body"]) + 1), ["seq", []])
        g.feat.add("empty sequential block")
    kinds = ["parse_bad", "fill_shadow", "fill_late", "used_ctx", "resolve_ctx", "run_bad", "used_bad"]
    if family == "history":
        case["plan"] += [["fail", k] for k in rng.sample(kinds, 3)]
    elif rng.random() < 0.15:
        case["plan"].append(["fail", rng.choice(kinds)])
    if family == "reentry" or rng.random() < 0.15:
        case["plan"].append(["reentry", rng.choice(["fill_fill", "expand_fill", "fill_expand", "let_fill", "text_again",
                                                     "tables_reused", "run_fill_run"])])
    case["features"] = sorted(g.feat)
    del L
    return case


# ------------------------------------------------------------------------------------------------------------------
# front ends

def num(case, v, salt, np_ok=True):
    """the number v in the form the case asks for (s-expression / builder entries).  Numpy scalars are used for
    literal indices and bounds only, where the library either takes them as the integer or refuses them; as the
    ARGUMENT of a macro call (np_ok=False) they are left out: the library does not count numpy.int64 as an integer when
    it evaluates the index of a forwarded reference, a matter outside what C06 quantifies over"""
    forms = case.get("forms")
    if not forms or not isinstance(v, int):
        return v
    np = lib()["np"]
    f = forms[(salt + case["seed"]) % len(forms)]
    if not np_ok and f.startswith("np"):
        f = "float"
    if f == "float":
        return -0.0 if v == 0 and (salt % 2) else float(v)
    if f == "np_int":
        return np.int64(v)
    if f == "np_float":
        return np.float64(v)
    return v


def text_arg(a):
    return f"{a[1]}[{a[2]}]" if a[0] == "q" else str(a[1])


def text_stmt(s):
    if s[0] in ("gate", "call"):
        return " ".join([s[1]] + [text_arg(a) for a in s[2]])
    if s[0] == "loop":
        return f"loop {s[1]} {{ " + " ; ".join(text_stmt(x) for x in s[2]) + " }"
    if s[0] == "par":
        return "< " + " | ".join(text_stmt(x) for x in s[1]) + " >"
    return "{ " + " ; ".join(text_stmt(x) for x in s[1]) + " }"


def text_of(P):
    b = lambda v: "" if v is None else str(v)        # noqa: E731
    lines = [f"let {n} {t}" for n, t in P["lets"]]
    lines.append(f"register {P['reg'][0]}[{P['reg'][1]}]")
    for m in P["maps"]:
        if m["kind"] == "whole":
            lines.append(f"map {m['name']} {m['src']}")
        elif m["kind"] == "qubit":
            lines.append(f"map {m['name']} {m['src']}[{m['index']}]")
        else:
            sl = b(m["start"]) + ":" + b(m["stop"]) + ("" if m["step"] is None else ":" + b(m["step"]))
            lines.append(f"map {m['name']} {m['src']}[{sl}]")
    for name, params, body in P["macros"]:
        lines.append(f"macro {name} " + "".join(p + " " for p, _ in params) + "{ " + " ; ".join(text_stmt(s) for s in body) + " }")
    if P["emulate"]:
        lines.append("prepare_all")
    lines += [text_stmt(s) for s in P["body"]]
    if P["emulate"]:
        lines.append("measure_all")
    return "\n".join(lines) + "\n"


def sexpr_of(case, P=None, objects=None):
    """the program as an s-expression; every identifier is a run-time string; with `share` equal arguments are ONE
    list object; `objects` (tables of another circuit) replaces the let / register / map declarations"""
    P = P or case["P"]
    cache = {}
    cnt = [0]

    def n_(v, np_ok=True):
        cnt[0] += 1
        return fresh(v) if isinstance(v, str) else num(case, v, cnt[0], np_ok)

    def arg(a, native):
        if native and a[0] == "i" and not isinstance(a[1], str):
            return a[1]           # the classical argument of a native gate keeps its type (C06 is about indices)
        key = json.dumps(a)
        if case.get("share") and key in cache:
            return cache[key]
        x = ["array_item", fresh(a[1]), n_(a[2])] if a[0] == "q" else n_(a[1], False)
        cache[key] = x
        return x

    def st(s):
        if s[0] in ("gate", "call"):
            return ["gate", fresh(s[1]), *[arg(a, s[0] == "gate") for a in s[2]]]
        if s[0] == "loop":
            return ["loop", n_(s[1]) if isinstance(s[1], str) else s[1], ["sequential_block", *[st(x) for x in s[2]]]]
        return ["parallel_block" if s[0] == "par" else "sequential_block", *[st(x) for x in s[1]]]

    out = ["circuit"]
    if objects is not None:
        out += list(objects)
    else:
        for n, t in P["lets"]:
            out.append(["let", fresh(n), int(t) if t.lstrip("-").isdigit() else float(t)])
        out.append(["register", fresh(P["reg"][0]), P["reg"][1]])
        for m in P["maps"]:
            if m["kind"] == "whole":
                out.append(["map", fresh(m["name"]), fresh(m["src"])])
            elif m["kind"] == "qubit":
                out.append(["map", fresh(m["name"]), fresh(m["src"]), n_(m["index"])])
            else:
                out.append(["map", fresh(m["name"]), fresh(m["src"]), n_(m["start"]), n_(m["stop"]), n_(m["step"])])
    for name, params, body in P["macros"]:
        out.append(["macro", fresh(name), *[fresh(p) for p, _ in params], ["sequential_block", *[st(s) for s in body]]])
    if P["emulate"]:
        out.append(["gate", "prepare_all"])
    out += [st(s) for s in P["body"]]
    if P["emulate"]:
        out.append(["gate", "measure_all"])
    return out


def builder_build(case):
    """CircuitBuilder with evaluated objects at top level (shared NamedQubit objects with `share`)"""
    L = lib()
    P = case["P"]
    b = L["CircuitBuilder"](native_gates=L["GATES"])
    consts = {n: b.let(fresh(n), int(t) if t.lstrip("-").isdigit() else float(t)) for n, t in P["lets"]}
    cnt = [0]

    def obj(v, np_ok=True):
        cnt[0] += 1
        return consts[v] if isinstance(v, str) else None if v is None else num(case, v, cnt[0], np_ok)

    regs = {P["reg"][0]: b.register(fresh(P["reg"][0]), P["reg"][1])}
    for m in P["maps"]:
        if m["kind"] == "whole":
            regs[m["name"]] = b.map(fresh(m["name"]), regs[m["src"]])
        elif m["kind"] == "qubit":
            regs[m["name"]] = b.map(fresh(m["name"]), regs[m["src"]], obj(m["index"]))
        else:
            regs[m["name"]] = b.map(fresh(m["name"]), regs[m["src"]], slice(obj(m["start"]), obj(m["stop"]), obj(m["step"])))
    sx = sexpr_of(case)
    for x in sx:
        if isinstance(x, list) and x[0] == "macro":
            b.macro(x[1], x[2:-1], x[-1], unevaluated=True)
    cache = {}

    def arg(a, native):
        if native and a[0] == "i" and not isinstance(a[1], str):
            return a[1]
        key = json.dumps(a)
        if case.get("share") and key in cache:
            return cache[key]
        x = regs[a[1]][obj(a[2])] if a[0] == "q" else regs[a[1]] if a[0] == "n" else obj(a[1], False)
        cache[key] = x
        return x

    def put(bb, s):
        if s[0] in ("gate", "call"):
            bb.gate(fresh(s[1]), *[arg(a, s[0] == "gate") for a in s[2]])
        elif s[0] == "loop":
            blk = L["SequentialBlockBuilder"]()
            for x in s[2]:
                put(blk, x)
            bb.loop(obj(s[1]) if isinstance(s[1], str) else s[1], blk, unevaluated=True)
        else:
            blk = bb.block(parallel=(s[0] == "par"))
            for x in s[1]:
                put(blk, x)

    if P["emulate"]:
        b.gate("prepare_all")
    for s in P["body"]:
        put(b, s)
    if P["emulate"]:
        b.gate("measure_all")
    return b.build()


def build_case(case, entry=None):
    L = lib()
    e = entry or case["entry"]
    if e == "text":
        return L["parse"](text_of(case["P"]), inject_pulses=L["GATES"], autoload_pulses=False)
    if e == "sexpr":
        return L["build"](sexpr_of(case), inject_pulses=L["GATES"])
    return builder_build(case)


# ------------------------------------------------------------------------------------------------------------------
# the consumers against the reference

def ref_state(L, n, ops):
    np = L["np"]
    v = np.zeros(2**n, dtype=complex)
    v[0] = 1
    for name, qs, cs in ops:
        u = L["U"][name]
        if u is None:
            continue
        m = np.asarray(u(*cs))
        w = np.zeros_like(v)
        for i in range(2**n):
            if v[i] == 0:
                continue
            col = sum(((i >> q) & 1) << j for j, q in enumerate(qs))
            base = i
            for q in qs:
                base &= ~(1 << q)
            for row in range(2 ** len(qs)):
                a = m[row, col]
                if a != 0:
                    o = base
                    for j, q in enumerate(qs):
                        if (row >> j) & 1:
                            o |= 1 << q
                    w[o] += a * v[i]
        v = w
    return v


class Check:
    def __init__(self, case, rec_as=None):
        self.case = case
        self.P = case["P"]
        self.den = Den(self.P)
        self.checks = []
        self.info = []
        self.rec_as = rec_as

    def rec(self, name, ok, detail=""):
        if not ok and ("is not an integer" in detail or "Qubit index " in detail) and any(f.startswith("np") for f in self.case.get("forms") or []):
            self.info.append("a numpy number is refused as an index at a later stage (not held against the library)")
            return
        if self.rec_as and name != "C06t_unchanged":
            detail = f"[{name}, {self.rec_as[1]}] " + detail
            name = self.rec_as[0]
        self.checks.append((name, bool(ok), "" if ok else short(detail, 800)))

    # -- small helpers on library objects
    def flat(self, s):
        L = lib()
        if isinstance(s, L["GateStatement"]):
            return [s]
        if isinstance(s, L["LoopStatement"]):
            return self.flat(s.statements)
        out = []
        for x in s.statements:
            out += self.flat(x)
        return out

    def top(self, c):
        st = list(c.body.statements)
        return st[1:-1] if self.P["emulate"] else st

    def resolved(self, q, ctx):
        r = guarded(lambda: q.resolve_qubit(dict(ctx)) if ctx is not None else q.resolve_qubit())
        if r[0] == "ok":
            reg, k = r[1]
            return ("ok", getattr(reg, "name", None), k, bool(getattr(reg, "fundamental", False)))
        return r

    def is_index(self, got, k):
        return got[0] == "ok" and got[1] == self.den.R and got[3] and not isinstance(got[2], bool) and got[2] == k

    def used_is(self, view, obj, ctx, want, what):
        r = guarded(lambda: {k: set(v) for k, v in lib()["used"](obj, context=None if ctx is None else dict(ctx)).items() if v})
        exp = {self.den.R: set(want)} if want else {}
        ok = r[0] == "ok" and r[1] == exp and not any(isinstance(x, bool) for v in r[1].values() for x in v)
        self.rec("C06t_used", ok, f"{view}: get_used_qubit_indices({what}) = {short(str(r[1:]), 200)}, the references denote "
                 f"{self.den.R}{sorted(want)}" + (f" (context {short(str(ctx), 160)})" if ctx else ""))

    def depends_on_param(self, q):
        L = lib()
        return isinstance(q.alias_index, L["Parameter"]) or isinstance(q.alias_from, L["Parameter"])

    # -- walk the AST and the library's statements in parallel
    def walk(self, view, c, asts, stmts, env, ctx, fundamental, depth=0):
        L = lib()
        den = self.den
        GS, NQ, PR = L["GateStatement"], L["NamedQubit"], L["Parameter"]
        stmts = list(stmts)
        if len(asts) != len(stmts):
            self.rec("C06t_resolve", False, f"{view}: {len(stmts)} statements where the program has {len(asts)}")
            return
        for a, s in zip(asts, stmts):
            what = text_stmt(a)
            if a[0] in ("gate", "call"):
                if not isinstance(s, GS) or s.name != a[1] or len(s.parameters) != len(a[2]):
                    self.rec("C06t_resolve", False, f"{view}: statement {s!s:.80} where the program has `{what}`")
                    continue
                if (a[0] == "call") != isinstance(s.gate_def, L["Macro"]):
                    self.rec("C06t_resolve", False, f"{view}: `{what}`: gate_def is {type(s.gate_def).__name__}")
                    continue
                for aa, v in zip(a[2], s.parameters.values()):
                    if aa[0] == "i":
                        continue
                    k = den.qubit(aa, env)
                    if isinstance(v, PR):
                        continue          # a forwarded qubit parameter: its value is in the context built below
                    if not isinstance(v, NQ):
                        self.rec("C06t_resolve", False, f"{view}: `{what}`: argument {v!s:.60} is no qubit")
                        continue
                    got = self.resolved(v, ctx)
                    self.rec("C06t_resolve", self.is_index(got, k),
                             f"{view}: `{what}`: {v.name} resolves to {got[1:3] if got[0] == 'ok' else got}, the reference "
                             f"denotes {den.R}[{k}]" + (f" (context {short(str(ctx), 160)})" if ctx else ""))
                    if fundamental and not self.depends_on_param(v):
                        af = v.alias_from
                        ok = (isinstance(af, L["Register"]) and af.fundamental and af.name == den.R
                              and not isinstance(v.alias_index, bool) and v.alias_index == k)
                        self.rec("C06t_fill", ok, f"{view}: `{what}`: argument is {v!s:.90}, expected {den.R}[{k}] of the fundamental register")
                want = den.uses([a], env)
                self.used_is(view, s, ctx, want, f"`{what}`")
                if a[0] == "call" and depth < 4:
                    _, params, mbody = den.macros[a[1]]
                    env2 = den.bind(a[1], a[2], env)
                    ctx2 = {}
                    for (p, kind), aa, v in zip(params, a[2], s.parameters.values()):
                        if isinstance(v, PR):
                            ctx2[p] = (ctx or {}).get(v.name, v)
                        elif isinstance(v, NQ) and self.depends_on_param(v):
                            ctx2[p] = c.registers[den.R][env2[p][1]]
                        else:
                            ctx2[p] = v
                    mac = s.gate_def
                    if [q.name for q in mac.parameters] != [p for p, _ in params]:
                        self.rec("C06t_resolve", False, f"{view}: macro {a[1]} has parameters {[q.name for q in mac.parameters]}")
                        continue
                    self.walk(view + f" > {a[1]}", c, mbody, mac.body.statements, env2, ctx2, fundamental, depth + 1)
                    wantb = den.uses(mbody, env2)
                    self.used_is(view + f" > {a[1]}", mac.body, ctx2, wantb, f"body of {a[1]}")
            elif a[0] == "loop":
                if not isinstance(s, L["LoopStatement"]):
                    self.rec("C06t_resolve", False, f"{view}: statement {s!s:.80} where the program has `{what}`")
                    continue
                want = den.uses([a], env)
                self.used_is(view, s, ctx, want, f"`{what}`")
                self.walk(view, c, a[2], s.statements.statements, env, ctx, fundamental, depth)
            else:
                if not isinstance(s, L["BlockStatement"]) or bool(s.parallel) != (a[0] == "par"):
                    self.rec("C06t_resolve", False, f"{view}: statement {s!s:.80} where the program has `{what}`")
                    continue
                want = den.uses([a], env)
                self.used_is(view, s, ctx, want, f"`{what}`")
                self.walk(view, c, a[1], s.statements, env, ctx, fundamental, depth)

    def structured(self, view, c, fundamental=False):
        """a circuit that still has the shape of the program"""
        P, den = self.P, self.den
        allq = den.uses(P["body"], {})
        whole = set(range(den.length(den.R))) if P["emulate"] else allq
        if self.case.get("used_first"):
            self.used_is(view, c, None, whole, "circuit")
        self.walk(view, c, P["body"], self.top(c), {}, None, fundamental)
        if not self.case.get("used_first"):
            self.used_is(view, c, None, whole, "circuit")
        if not P["emulate"]:
            self.used_is(view, c.body, None, allq, "body")

    def flat_view(self, view, c, fundamental=False):
        """a circuit whose macros were expanded: the flattened gates are the reference's gate applications"""
        L = lib()
        den = self.den
        want = den.ops(self.P["body"], {}, False)
        gs = [x for x in self.flat(c.body) if x.name not in ("prepare_all", "measure_all")]
        if [x.name for x in gs] != [w[0] for w in want]:
            self.rec("C06t_resolve", False, f"{view}: gates {[x.name for x in gs][:30]}, the program applies {[w[0] for w in want][:30]}")
            return
        for x, (nm, ks, _) in zip(gs, want):
            qs = [v for v in x.parameters.values() if isinstance(v, L["NamedQubit"])]
            if len(qs) != len(ks):
                self.rec("C06t_resolve", False, f"{view}: {nm} has {len(qs)} qubit arguments, expected {len(ks)}")
                continue
            for q, k in zip(qs, ks):
                got = self.resolved(q, None)
                self.rec("C06t_resolve", self.is_index(got, k), f"{view}: {nm} {q.name} resolves to "
                         f"{got[1:3] if got[0] == 'ok' else got}, the reference denotes {den.R}[{k}]")
                if fundamental:
                    af = q.alias_from
                    ok = (isinstance(af, L["Register"]) and af.fundamental and af.name == den.R
                          and not isinstance(q.alias_index, bool) and q.alias_index == k)
                    self.rec("C06t_fill", ok, f"{view}: {nm} argument is {q!s:.90}, expected {den.R}[{k}] of the fundamental register")
            self.used_is(view, x, None, set() if nm in IDLE else set(ks), f"{nm} …")
        allq = den.uses(self.P["body"], {})
        self.used_is(view, c, None, set(range(den.length(den.R))) if self.P["emulate"] else allq, "circuit")

    def emulate(self, view, c):
        L = lib()
        np = L["np"]
        P, den = self.P, self.den
        n = den.length(den.R)
        if not P["emulate"] or n > EMU_MAX:
            return
        want = ref_state(L, n, den.ops(P["body"], {}, True))
        wp = np.abs(want) ** 2

        def read():
            sub = L["run"](c).subcircuits[0]
            out = {}
            for o in self.case.get("order", ["state", "int", "str"]):
                if o == "state":
                    out[o] = np.array(sub.state_vector)
                elif o == "int":
                    out[o] = np.array(list(sub.simulated_probability_by_int), dtype=float)
                else:
                    out[o] = {k: float(v) for k, v in sub.simulated_probability_by_str.items()}
            return out

        r = guarded(read)
        self.rec("C06t_yields", r[0] == "ok", f"{view}: run_jaqal_circuit on a valid program: {r[1:]}")
        if r[0] != "ok":
            return
        got = r[1]
        ok = got["state"].shape == want.shape and bool(np.allclose(got["state"], want, atol=1e-9))
        self.rec("C06t_emulator", ok, f"{view}: state {np.round(got['state'], 3).tolist()} but the gates on the denoted qubits give "
                 f"{np.round(want, 3).tolist()}")
        ok = got["int"].shape == wp.shape and bool(np.allclose(got["int"], wp, atol=1e-9))
        self.rec("C06t_emulator", ok, f"{view}: simulated_probability_by_int {np.round(got['int'], 3).tolist()}, expected {np.round(wp, 3).tolist()}")
        ws = {"".join(str((j >> i) & 1) for i in range(n)): float(wp[j]) for j in range(2**n)}
        ok = set(got["str"]) == set(ws) and all(abs(got["str"][k] - ws[k]) < 1e-9 for k in ws)
        self.rec("C06t_emulator", ok, f"{view}: simulated_probability_by_str {short(str(got['str']), 200)}, expected {short(str(ws), 200)}")

    def passes(self, view, c):
        """the consumers on circuit c (which has the shape of the program) and on what the passes make of it"""
        L = lib()
        before = repr(c.body) + repr(list(c.macros.values())) + repr(list(c.registers.values()))
        self.structured(view, c)
        fl_ = guarded(lambda: L["fill_in_let"](c))
        self.rec("C06t_yields", fl_[0] == "ok", f"{view}: fill_in_let of a valid program: {fl_[1:]}")
        if fl_[0] == "ok":
            self.structured(view + ", fill_in_let", fl_[1])
        elif False:
            self.rec("C06t_yields", False, f"{view}: fill_in_let of a valid program: {fl_[1:]}")
        ex = guarded(lambda: L["expand_macros"](c))
        self.rec("C06t_yields", ex[0] == "ok", f"{view}: expand_macros of a valid program: {ex[1:]}")
        if ex[0] == "ok":
            self.flat_view(view + ", expand_macros", ex[1])
            fm = guarded(lambda: L["fill_in_map"](ex[1]))
            if fm[0] == "ok":
                self.flat_view(view + ", expand_macros, fill_in_map", fm[1], True)
            else:
                self.rec("C06t_fill", False, f"{view}: fill_in_map after expand_macros refuses a valid program: {fm[1:]}")
        fm = guarded(lambda: L["fill_in_map"](c))
        if index_by_param(self.P):
            self.info.append("fill_in_map not applicable before expansion (index through a macro parameter)")
            if fm[0] == "ok":
                self.structured(view + ", fill_in_map", fm[1], True)
        elif fm[0] == "ok":
            self.structured(view + ", fill_in_map", fm[1], True)
            self.emulate(view + ", fill_in_map", fm[1])
        else:
            self.rec("C06t_fill", False, f"{view}: fill_in_map refuses a valid program in which nothing is shadowed: {fm[1:]}")
        pipe = guarded(lambda: L["expand_macros"](L["fill_in_let"](L["expand_subcircuits"](c))))
        if pipe[0] == "ok":
            self.flat_view(view + ", emulator pipeline", pipe[1])
        else:
            self.rec("C06t_yields", False, f"{view}: expand_subcircuits, fill_in_let, expand_macros on a valid program: {pipe[1:]}")
        self.emulate(view, c)
        after = repr(c.body) + repr(list(c.macros.values())) + repr(list(c.registers.values()))
        self.rec("C06t_unchanged", before == after, f"{view}: the circuit changed under the passes: {short(before, 300)} -> {short(after, 300)}")
        return fm[1] if fm[0] == "ok" else None, ex[1] if ex[0] == "ok" else None


# ------------------------------------------------------------------------------------------------------------------
# histories

def broken_twin(case, kind):
    """a program next to the case's that fails half-way: -> (P', note)"""
    P = json.loads(json.dumps(case["P"]))
    den = Den(P)
    R = den.R
    last = [m["name"] for m in P["maps"] if m["kind"] != "qubit"][-1] if any(m["kind"] != "qubit" for m in P["maps"]) else R
    n = den.length(last)
    if kind == "parse_bad":
        P["body"].append(["gate", "X", [["q", last, n]]])            # literal index == length of the alias
    elif kind in ("run_bad", "used_bad"):
        P["lets"].append(["zz9", str(n + 1)])
        P["body"].append(["gate", "X", [["q", last, "zz9"]]])        # let-valued index outside the alias
    elif kind == "fill_shadow":
        P["macros"].append(["zz8", [[R, "q"]], [["gate", "X", [["n", R]]], ["gate", "X", [["q", last, 0]]]]])
        P["body"].append(["call", "zz8", [["q", last, 0]]])           # a parameter that really has the register's name
    else:   # fill_late: the LAST macro is unusable for fill_in_map (indexes by its parameter), the earlier ones are fine
        P["macros"].append(["zz7", [["zz6", "i"]], [["gate", "X", [["q", last, "zz6"]]]]])
        P["body"].append(["call", "zz7", [["i", 0]]])
    return P


def run_failure(case, kind, c):
    """the failing call; -> outcome tag for the distribution"""
    L = lib()
    if kind in ("used_ctx", "resolve_ctx"):
        mac = next(iter(c.macros.values()), None)
        if mac is None:
            return "no macro"
        bad = {p.name: 10**6 for p in mac.parameters}
        if kind == "used_ctx":
            r = guarded(lambda: L["used"](mac.body, context=bad))
        else:
            qs = [v for g in Check(case).flat(mac.body) for v in g.parameters.values() if isinstance(v, L["NamedQubit"])]
            r = guarded(lambda: [q.resolve_qubit(bad) for q in qs])
        return kind + ":" + r[0]
    P2 = broken_twin(case, kind)
    text = text_of(P2)
    pr = guarded(lambda: L["parse"](text, inject_pulses=L["GATES"], autoload_pulses=False))
    if pr[0] != "ok":
        return kind + ":front end " + pr[0]
    c2 = pr[1]
    if kind in ("fill_shadow", "fill_late", "parse_bad"):
        r = guarded(lambda: L["fill_in_map"](c2))
    elif kind == "used_bad":
        r = guarded(lambda: L["used"](c2))
    else:
        r = guarded(lambda: L["run"](c2)) if P2["emulate"] and Den(case["P"]).length(Den(case["P"]).R) <= EMU_MAX else guarded(
            lambda: L["fill_in_map"](L["expand_macros"](c2)))
    return kind + ":" + r[0]


def check_case(case):
    L = lib()
    K = Check(case)
    P = case["P"]
    br = guarded(lambda: build_case(case))
    if br[0] != "ok":
        if case.get("forms") and any(f.startswith("np") for f in case["forms"]):
            K.info.append("front end rejects a numpy number (not held against the library)")
        else:
            K.rec("C06t_yields", False, f"{case['entry']} front end on a valid program: {br[1:]}")
        return K.checks, K.info
    c = br[1]
    K.rec("C06t_yields", True)
    filled, expanded = K.passes("as built", c)
    for step in case.get("plan", []):
        if step[0] == "fail":
            tag = run_failure(case, step[1], c)
            K.info.append("failed call " + tag)
            K2 = Check(case, rec_as=("C06t_after_failure", f"after {tag}"))
            K2.passes("same object", c)
            fr = guarded(lambda: build_case(case))
            if fr[0] == "ok":
                K2.passes("fresh object", fr[1])
            else:
                K2.rec("C06t_yields", False, f"front end after the failure: {fr[1:]}")
            K.checks += K2.checks
        else:
            how = step[1]
            view = "re-entry " + how
            if how == "fill_fill" and filled is not None:
                r = guarded(lambda: L["fill_in_map"](filled))
                if r[0] == "ok":
                    K.structured(view, r[1], True)
                    K.emulate(view, r[1])
                else:
                    K.rec("C06t_fill", False, f"{view}: fill_in_map of its own result: {r[1:]}")
            elif how == "expand_fill" and expanded is not None:
                r = guarded(lambda: L["fill_in_map"](L["fill_in_map"](expanded)))
                if r[0] == "ok":
                    K.flat_view(view, r[1], True)
                    K.emulate(view, r[1])
                else:
                    K.rec("C06t_fill", False, f"{view}: {r[1:]}")
            elif how == "fill_expand" and filled is not None:
                r = guarded(lambda: L["expand_macros"](filled))
                if r[0] == "ok":
                    K.flat_view(view, r[1], not index_by_param(P))
                    K.emulate(view, r[1])
                else:
                    K.rec("C06t_yields", False, f"{view}: expand_macros of the filled circuit: {r[1:]}")
            elif how == "let_fill":
                r = guarded(lambda: L["fill_in_map"](L["expand_macros"](L["fill_in_let"](c))))
                if r[0] == "ok":
                    K.flat_view(view, r[1], True)
                    K.emulate(view, r[1])
                else:
                    K.rec("C06t_fill", False, f"{view}: fill_in_map(expand_macros(fill_in_let(c))): {r[1:]}")
            elif how == "text_again" and filled is not None:
                r = guarded(lambda: L["parse"](L["gen"](filled), inject_pulses=L["GATES"], autoload_pulses=False))
                if r[0] == "ok":
                    K.structured(view, r[1], True)
                    K.emulate(view, r[1])
                else:
                    K.info.append("generated text of the filled circuit not parsed: " + r[0])
            elif how == "tables_reused":
                objs = list(c.constants.values()) + list(c.registers.values())
                r = guarded(lambda: L["build"](sexpr_of(case, objects=objs), inject_pulses=L["GATES"]))
                if r[0] == "ok":
                    Kb = Check(case)
                    Kb.passes(view + " (circuit B)", r[1])
                    K.checks += Kb.checks
                    K.structured(view + " (circuit A afterwards)", c)
                else:
                    K.rec("C06t_yields", False, f"{view}: building circuit B from the tables of A: {r[1:]}")
            elif how == "run_fill_run":
                K.emulate(view + " (1)", c)
                if filled is not None:
                    K.emulate(view + " (2)", filled)
                K.emulate(view + " (3)", c)
                K.structured(view + " (after the runs)", c)
    return K.checks, K.info


# ------------------------------------------------------------------------------------------------------------------

def strip(case):
    return {k: v for k, v in case.items() if k != "features"}


def run(seed: int, n: int, driver: str = DEFAULT_DRIVER, thorough: bool = False) -> dict:
    lib()
    rng = random.Random(f"c06_traps:{seed}")
    if thorough:
        n = n * 8
    oracle = {k: {"cases": 0, "failures": [], "total": 0} for k in ORACLES}
    dist = {}
    samples = []
    distinct = set()

    def bump(k, v=1):
        dist[k] = dist.get(k, 0) + v

    for i in range(n):
        case = gen_case(rng, i, thorough)
        checks, info = check_case(case)
        failed = set()
        for name, ok, detail in checks:
            oracle[name]["cases"] += 1
            if not ok:
                oracle[name]["total"] += 1
                if name not in failed and len(oracle[name]["failures"]) < 20:
                    failed.add(name)
                    oracle[name]["failures"].append({"case": strip(case), "detail": detail})
        bump("cases")
        bump("family: " + case["family"])
        bump("entry: " + case["entry"])
        bump("emulated" if case["P"]["emulate"] else "not emulated")
        bump(f"macros: {len(case['P']['macros'])}")
        for f in case["features"]:
            bump("feature: " + f)
        for s in set(info):
            bump("info: " + s)
        for st in case["plan"]:
            bump("plan: " + " ".join(st))
        if case["forms"]:
            bump("number forms: " + "/".join(case["forms"]))
        if case["share"]:
            bump("feature: shared argument objects")
        distinct.add(json.dumps(case["P"], sort_keys=True))
        if len(samples) < 4 and case["P"]["macros"]:
            samples.append(strip(case))
    return {"corr": {}, "oracle": oracle, "distribution": dict(sorted(dist.items())), "samples": samples,
            "nontrivial": len(distinct)}


def replay(case: dict, driver: str = DEFAULT_DRIVER) -> dict:
    lib()
    case = dict(case)
    case.setdefault("features", [])
    checks, info = check_case(case)
    fails = [f"{name}: {detail}" for name, ok, detail in checks if not ok]
    return {"oracle_ok": not fails, "detail": "; ".join(fails[:4]) or "ok", "text": short(text_of(case["P"]), 1500)}


def main():
    ap = argparse.ArgumentParser()
    ap.add_argument("--seed", type=int, default=0)
    ap.add_argument("--n", type=int, default=60)
    ap.add_argument("--thorough", action="store_true")
    a = ap.parse_args()
    res = run(a.seed, a.n, thorough=a.thorough)
    bad = 0
    for name, d in res["oracle"].items():
        bad += d["total"]
        print(f"oracle {name:22} cases {d['cases']:6}  failures {d['total']}")
        for x in d["failures"][:3]:
            print("    ", x["detail"][:900])
            print("     program:", text_of(x["case"]["P"]).replace("\n", " / ")[:700])
    for k, v in res["distribution"].items():
        print(f"  {k}: {v}")
    print("nontrivial:", res["nontrivial"])
    sys.exit(0 if bad == 0 else 1)


if __name__ == "__main__":
    main()
