#!/venv/bin/python
"""Direct oracles for C02 on the dimension the other C02 scripts (parse_diff.py, c02_entry.py) never vary: the
VALUES at the leaves of the statement tree and the exact REPRESENTATION in which the parser reports them.

C02: "… the statement tree it reports is the one the grammar assigns to that text.  Inserting comments, spaces or
blank lines, or exchanging `;` with a newline … never changes the result, and no statement outside a comment is ever
dropped.  A rejected text raises a parse error whose position is that of a token of the text at or after the first
offending one, or the end of input."

The other scripts compare trees after rendering them (`str(Identifier)`, JSON) and draw their leaves from small
pools (integers -5..40, three usepulses paths with at most two dots, no zero counts next to empty blocks, …).  Here
every program is generated from an abstract tree whose leaves come from EDGE pools, and the EXPECTED statement tree
is computed from that abstract tree by this script alone (never by parsing, never with `Identifier.parse`, `int()`
or `float()` of the library's choosing):

  identifiers   dotted names with 0…5 dots, digits after a dot (`a.1.5`), `_`, keyword look-alikes (`let.a`,
                `from.x`, `lets`, `LET`), 300-character names; usepulses module paths absolute and RELATIVE with up to
                five components (`.`, `.a`, `.lab.pulses.native`, `qscout.v1.std.extra`).  The usepulses node must be
                the tuple of the path's components split at EVERY dot (a relative path starts with an empty
                component) whose str() is the path as written; every other name is the plain string.
  integers      0, -0, +0, 00, 007, ±1, 65535/65536, 2**31, 2**32, 2**53±1, 2**63±1, 2**64, 2**128, 10**30, random
                15–40 digit numbers, and 4299 / 4300 digit literals with and without sign (the longest Python
                converts) — reported as `int` with the exact value (reference: digit-by-digit accumulation)
  numbers       0.0, -0.0, +0.0, -.0, integral floats (1.0, 2.0, 9007199254740993.0), neighbours that differ in the
                last ulp, halfway cases, denormals, underflow to ±0.0, the largest finite literals, exponents with
                sign / leading zeros, long mantissas — reported as `float` with exactly the correctly rounded bits
                and the sign of zero (reference: exact rational arithmetic, correctly rounded integer division)
  falsy things  count 0 of loop / subcircuit, `subcircuit {…}` (count "") next to `subcircuit 0 {…}`, index 0, slice
                parts 0 next to absent ones (None), `let` equal to 0 / 0.0 / -0.0, case label '0' / '00', empty
                `{}` `<>` `branch {}` `macro m {}`, gates without arguments, the empty program, header only, body only
Streams (n programs):
  valid    a program of the grammar rendered TWICE with independent layouts (parse_diff's layout engine: `;` vs
           newline, `|` vs newline, comments, blanks, plus leading / trailing comment material)
  near     the same program with ONE leaf / token replaced by something the grammar forbids at that site (a NUMBER
           where an integer or identifier is required: loop count, subcircuit count, register size, index, slice
           part; an integer as a name; a BININT / relative path / keyword / `*` as a gate argument; a block or
           header statement where only inner statements may stand; register size 0 / -1 / -0; a header statement —
           with edge values — after a body consisting of one (possibly empty) statement of every kind including
           `branch`); the first offending token is known by construction
  limit    an integer literal of 4301+ digits or a NUMBER beyond the float range at a site where the grammar allows
           the token (the pinned library rejects both; either verdict is tolerated, see `limit_literals_sound`)
  scoped   small well-scoped programs (several usepulses lines, lets with edge values, one register, gates) handed
           to the circuit-level entry points
Oracles (all on the real code alone, `corr` is empty):
  edge_program_accepted        a program derivable from the grammar is accepted (parse_to_sexpression, with and
                               without return_usepulses, JaqalParser(...).parse(...) directly)
  tree_is_the_grammars         the reported tree equals the expected one EXACTLY: same nesting and length (no statement
                               dropped or added), names are `str`, integers are `int` (not bool / float) with the same
                               value, numbers are `float` with the same bits, absent slice parts are None, a missing
                               subcircuit count is "", usepulses modules are component tuples.  Both layouts of a
                               program are checked against the same expectation (layout insensitivity).
  usepulses_table_exact        the table returned with return_usepulses=True has exactly the modules of the usepulses
                               statements of the text as keys (component tuples as above), each mapped to `all`
  header_only_exact            header_only=True reports exactly the header statements of the expected tree and the
                               same table
  near_miss_rejected_at_or_after  a near miss is rejected, the exception is a JaqalParseError (a JaqalError; checked
                               by class, through parse_to_sexpression AND parse_jaqal_string — the error must not move
                               to the circuit builder or vanish), its (line, column) is ("EOF", 0) or two ints naming
                               the start of a token of the text (independent hand-written tokenizer) that is not
                               before the first offending token (for a register size <= 0 and a header after a body,
                               which are rejected by a grammar action: not before the first token of that statement)
  limit_literals_sound         an over-long integer / out-of-range number is either accepted — then the tree is the
                               exact expected one (integers) — or rejected with a JaqalParseError positioned as above,
                               not before the literal; nothing else may be raised
  circuit_entry_table_exact    parse_jaqal_string / parse_jaqal_string_header (autoload_pulses=False,
                               return_usepulses=True) accept a scoped program (a JaqalError of the circuit builder that
                               is not a parse error counts as accepted) and return {"usepulses": table} with exactly
                               the expected keys

API:   run(seed, n, driver, thorough) -> dict ; replay(case, driver) -> dict   (notes/AGENT_CONVENTIONS.md)
CLI:   /venv/bin/python -m harness.agents.c02_edge [--n N] [--seed S] [--thorough] [--json]
"""
import argparse
import collections
import json
import random
import signal
import struct
import sys

from harness import timeouts as _T

DEFAULT_DRIVER = "/verif/lean/.lake/build/bin/jaqal-model"

ORACLES = (
    "edge_program_accepted",
    "tree_is_the_grammars",
    "usepulses_table_exact",
    "header_only_exact",
    "near_miss_rejected_at_or_after",
    "limit_literals_sound",
    "circuit_entry_table_exact",
)

# ------------------------------------------------------------------------------------------ the library

_LIB = None


def lib():
    """Names of the loaded library and of the helper scripts (looked up lazily: nothing happens at import time)."""
    global _LIB
    if _LIB is None:
        import jaqalpaq.parser.parser as PP
        from jaqalpaq.parser import slyparse as S
        from jaqalpaq.error import JaqalError
        from harness.agents.parse_diff import Gen
        from harness.agents.c02_entry import token_positions

        _LIB = dict(PP=PP, S=S, JaqalError=JaqalError, JaqalParseError=S.JaqalParseError, Gen=Gen,
                    token_positions=token_positions)
    return _LIB


class Hang(BaseException):
    pass


def _alarm(*_a):
    raise Hang()


def guarded(f):
    """-> (outcome, raw).  outcome: ["ok"] | ["perr", line, col] | ["jerr", class, msg] | ["exc", class, msg] | ["hang"]"""
    L = lib()
    old = signal.signal(signal.SIGALRM, _alarm)
    signal.alarm(int(_T.limit()))
    try:
        try:
            return ["ok"], f()
        finally:
            signal.alarm(0)
            signal.signal(signal.SIGALRM, old)
    except Hang:
        _T.saw_hang()
        return ["hang"], None
    except L["JaqalParseError"] as e:
        if not isinstance(e, L["JaqalError"]):
            return ["exc", type(e).__name__, "JaqalParseError is not a JaqalError"], None
        return ["perr", getattr(e, "line", "<no line>"), getattr(e, "column", "<no column>")], None
    except L["JaqalError"] as e:
        return ["jerr", type(e).__name__, str(e)[:300]], None
    except Exception as e:  # noqa
        return ["exc", type(e).__name__, str(e)[:300]], None


# ------------------------------------------------------------------------- independent reference values


class Id(tuple):
    """Expected usepulses module: the components of the path."""


def ref_components(path):
    """Components of a dotted path, split at EVERY dot, written by hand (a relative path starts with '')."""
    out, cur = [], ""
    for ch in path:
        if ch == ".":
            out.append(cur)
            cur = ""
        else:
            cur += ch
    out.append(cur)
    return Id(out)


def ref_int(text):
    """Value of an INT literal `[-+]?[0-9]+`, digit by digit (Python's int() is not used: it refuses > 4300 digits)."""
    neg, i = False, 0
    if text[0] in "+-":
        neg, i = text[0] == "-", 1
    v = 0
    for ch in text[i:]:
        v = v * 10 + (ord(ch) - 48)
    return -v if neg else v


def ref_bin(text):
    v = 0
    for ch in text[1:-1]:
        v = v * 2 + (ord(ch) - 48)
    return v


def ref_float(text):
    """Correctly rounded value of a NUMBER literal `[-+]?[0-9]*\\.[0-9]+([eE][-+]?[0-9]+)?` computed with exact integer
    arithmetic (int / int is correctly rounded, also for denormals); None when it rounds beyond the float range."""
    s, neg = text, False
    if s[0] in "+-":
        neg, s = s[0] == "-", s[1:]
    mant, exp = s, 0
    for k, ch in enumerate(s):
        if ch in "eE":
            mant, exp = s[:k], ref_int(s[k + 1:])
            break
    dot = mant.index(".")
    ip, fp = mant[:dot], mant[dot + 1:]
    digits = (ip + fp).lstrip("0")
    if not digits:
        v = 0.0
    else:
        e10 = exp - len(fp)
        lead = len(digits) + e10  # 10**(lead-1) <= value < 10**lead
        if lead > 310:
            return None
        if lead < -330:
            v = 0.0
        else:
            m = ref_int(digits)
            try:
                v = (m * 10 ** e10) / 1 if e10 >= 0 else m / 10 ** (-e10)
            except OverflowError:
                return None
    return -v if neg else v


def bits(x):
    return struct.pack(">d", x)


def show(v):
    """repr that also works for integers too long for str()"""
    if type(v) is int and v.bit_length() > 400:
        return f"<int of {v.bit_length()} bits {hex(v)[:24]}…>"
    if isinstance(v, float):
        return f"{v!r} ({v.hex()})"
    try:
        s = repr(v)
    except Exception as e:  # noqa
        s = f"<{type(v).__name__}: repr failed: {e}>"
    return s if len(s) < 160 else s[:157] + "…"


def tree_diff(exp, got, path="tree"):
    """First difference between the expected tree and the reported one, or None."""
    if isinstance(exp, Id):
        want = list(exp)
        if not isinstance(got, tuple):
            return f"{path}: expected a module path with components {want}, got {type(got).__name__} {show(got)}"
        if len(got) != len(want) or any(type(c) is not str for c in got) or list(got) != want:
            return f"{path}: expected the module path components {want}, got {list(got)!r}"
        if str(got) != ".".join(want):
            return f"{path}: str() of the module path is {str(got)!r}, the text has {'.'.join(want)!r}"
        return None
    if exp is None:
        return None if got is None else f"{path}: expected None (absent), got {type(got).__name__} {show(got)}"
    if isinstance(exp, str):
        if isinstance(got, str) and got == exp:
            return None
        return f"{path}: expected the string {exp[:60]!r}, got {type(got).__name__} {show(got)}"
    if type(exp) is int:
        if type(got) is int and got == exp:
            return None
        return f"{path}: expected the int {show(exp)}, got {type(got).__name__} {show(got)}"
    if type(exp) is float:
        if type(got) is float and bits(got) == bits(exp):
            return None
        return f"{path}: expected the float {show(exp)}, got {type(got).__name__} {show(got)}"
    if isinstance(exp, (list, tuple)):
        if isinstance(got, str) or not isinstance(got, (list, tuple, collections.deque)):
            return f"{path}: expected a node {show(exp)}, got {type(got).__name__} {show(got)}"
        got = list(got)
        head = exp[0] if exp and isinstance(exp[0], str) else ""
        for i, e in enumerate(exp):
            if i >= len(got):
                return f"{path}({head}): {len(got)} entries reported, {len(exp)} expected; missing [{i}] = {show(e)}"
            d = tree_diff(e, got[i], f"{path}[{i}]")
            if d:
                return d
        if len(got) > len(exp):
            return f"{path}({head}): {len(got)} entries reported, {len(exp)} expected; extra [{len(exp)}] = {show(got[len(exp)])}"
        return None
    return f"{path}: unexpected expectation {exp!r}"


def table_diff(mods, got):
    """mods: list of Id (modules of the usepulses statements, in order, with repetitions) vs the reported table."""
    if isinstance(got, dict) and set(got) == {"usepulses"}:
        got = got["usepulses"]
    if not isinstance(got, dict):
        return f"usepulses table: expected a dict, got {type(got).__name__} {show(got)}"
    want = []
    for m in mods:
        if list(m) not in want:
            want.append(list(m))
    keys = list(got)
    for k in keys:
        if not isinstance(k, tuple) or any(type(c) is not str for c in k) or list(k) not in want:
            return f"usepulses table: key {show(k)} (components {list(k) if isinstance(k, tuple) else '—'}) is not a module of the text; expected {want}"
        d = tree_diff(Id(k), k, "usepulses table key")
        if d:
            return d
        if got[k] is not all:
            return f"usepulses table: {show(k)} is mapped to {show(got[k])}, expected the builtin `all`"
    have = [list(k) for k in keys]
    for w in want:
        if w not in have:
            return f"usepulses table: module {w} is missing; keys {have}"
    if len(keys) != len(want):
        return f"usepulses table: {len(keys)} keys for {len(want)} distinct modules: {have}"
    return None


# JSON encoding of an expected tree (for `case`)


def enc(x):
    if isinstance(x, Id):
        return {"id": list(x)}
    if x is None or isinstance(x, str):
        return x
    if type(x) is int:
        return {"i": hex(x)}
    if type(x) is float:
        return {"f": x.hex()}
    return [enc(a) for a in x]


def dec(x):
    if isinstance(x, dict):
        if "id" in x:
            return Id(x["id"])
        if "i" in x:
            return int(x["i"], 16)
        return float.fromhex(x["f"])
    if isinstance(x, list):
        return [dec(a) for a in x]
    return x


# ------------------------------------------------------------------------------------------ edge pools

KEYWORDS = ["register", "map", "let", "macro", "loop", "import", "usepulses", "from", "as", "branch", "subcircuit"]

NAMES = ["g", "Rx", "q", "a", "b", "n", "b.c", "x_1", "foo.bar.baz", "_", "__", "_z", "_.a", "a.1", "a.1.5", "a0.0", "letx", "lets",
         "let.a", "a.let", "from.x", "from.x.y", "register1", "loop_", "Loop", "LET", "usepulses.x", "as.as", "branch.x",
         "subcircuit_", "A9", "e3", "E5", "x.e3", "e", "o0", "r", "N", "Sxx", "p.q1", "a.b.c.d.e", "qscout.v1.std", "I", "l", "O0.l1",
         "x" * 300, "a." * 40 + "z"]

PATHS = ["a", "a.b", "a.b.c", "a.b.c.d", "a.b.c.d.e", "qscout.v1.std", "qscout.v1.std.extra", ".", ".a", ".a.b", ".a.b.c",
         ".lab.pulses.native", "._", "._.x", "a.1.b", "x.y.z.w.v.u", "from.x.y", "a_b.c_d.e_f", "A.B.C", ".pulses", "x.y", "_._._",
         ".a1.2.b3", "std", "v1.std", ".v1.std", "let.a.b", ".x.y.z.w"]

INTS = ["0", "-0", "+0", "00", "000", "1", "-1", "+1", "007", "-007", "+007", "2", "3", "9", "10", "255", "256", "65535", "65536",
        "-65536", "2147483647", "2147483648", "-2147483649", "4294967295", "4294967296", "9007199254740991", "9007199254740992",
        "9007199254740993", "-9007199254740993", "9223372036854775807", "9223372036854775808", "-9223372036854775808",
        "-9223372036854775809", "18446744073709551615", "18446744073709551616", "+18446744073709551617",
        "340282366920938463463374607431768211456", "1" + "0" * 30, "-1" + "0" * 30, "179769313486231580793728971405303415079934132710037826936173778980444968292764750946649017977587207096330286416692887910946555547851940402630657488671505820681908902000708383676273854845817711531764475730270069855571366959622842914819860834936475292719074168444365510704342711559699508093042880177904174497792"]

FLOATS = ["0.0", "-0.0", "+0.0", "-.0", "+.0", "0.000", "00.0", "-0.0e5", "0.0e999", "-0.0e-999", "+.5", "-.5", "1.0", "-1.0", "+1.0", "2.0", "3.0",
          "1.5", "0.5", "0.1", "0.2", "0.3", "0.30000000000000004", "0.1e1", "1.0000000000000002", "1.0000000000000001",
          "1.00000000000000011102230246251565404236316680908203125", "1.00000000000000011102230246251565404236316680908203126",
          "0.9999999999999999", "0.99999999999999994", "0.99999999999999995", "9007199254740992.0", "9007199254740993.0",
          "9007199254740993.5", "9007199254740994.0", "-9007199254740993.0", "65536.0", "4294967296.0", "18446744073709551616.0",
          "18446744073709551615.0", "1.0e0", "1.0E0", "1.0e+0", "1.0e-0", "1.0e00", "1.5e007", "1.5E+007", "1.5e-007", "1.0e22", "1.0e23",
          "8.41e21", "5.0e-324", "4.9e-324", "2.5e-324", "2.4e-324", "2.4703282292062327e-324", "2.4703282292062328e-324",
          "-2.4e-324", "1.0e-400", "-1.0e-400", "2.2250738585072014e-308", "2.2250738585072011e-308", "2.2250738585072012e-308",
          "1.7976931348623157e308", "1.7976931348623158e308", "-1.7976931348623158e308", "17976931348623157.0e292",
          "0.00017976931348623157e312", "179769313486231570000.0e288", "3.141592653589793", "3.1415926535897932384626433832795",
          "6.283185307179586", "1.50", "00.5", "000.125", "100000000000000000000.0", "123456789012345678901234567890.123456789",
          "0." + "0" * 320 + "1", "0." + "0" * 330 + "1e330", "1" + "0" * 300 + ".0", "0.1e-322", "1.0e-323"]

TOO_BIG_FLOATS = ["1.7976931348623159e308", "1.8e308", "1.0e309", "-1.0e400", "1.0e99999", "-2.0e309", "1" + "0" * 309 + ".0",
                  "17976931348623159.0e292", "0.1e310"]

BININTS = ["'0'", "'1'", "'00'", "'01'", "'10'", "'000'", "'0001'", "'1111'", "'" + "1" * 64 + "'", "'1" + "0" * 64 + "'", "'" + "01" * 150 + "'"]

TRAILERS = ["", "", "", " ", "\t", "//x", " // end", "/**/", " /* \n */", "/*\n*/ //", "\n", "\n\n", "\n  \n", ";", " ; ;\n"]
LEADERS = ["", "", "", " ", "\t", "/**/", "/* a\n * b */", "//c\n", "\n", "\n\n// c\n", ";", " ;\n;"]


class EdgeGen:
    """Programs of the grammar as token lists (with parse_diff's separator markers), their expected tree, a tag per
    token (what stands there) and, per token, the index of the first token of its top-level statement."""

    def __init__(self, rng, big_rate):
        self.r = rng
        self.big_rate = big_rate  # probability that a program contains a 4299/4300 digit integer
        self.used = collections.Counter()

    # ---- leaves

    def name(self):
        r = self.r
        if r.random() < 0.6:
            return r.choice(NAMES)
        s = r.choice("abcxyzQRS_")
        for _ in range(r.randrange(0, 7)):
            s += r.choice("abcxyz019_AZ") if r.random() < 0.75 else "." + r.choice("abcxyz0189_")
        return s if s not in KEYWORDS else s + "_"

    def path(self):
        r = self.r
        if r.random() < 0.7:
            return r.choice(PATHS)
        p = "." if r.random() < 0.4 else ""
        comps = [r.choice(["a", "b1", "_c", "std", "v1", "X", "q_2", "let", "from", "p0"]) for _ in range(r.randrange(1, 6))]
        p += ".".join(comps)
        return p if p not in KEYWORDS else p + ".x"

    def int_text(self, positive=False):
        r = self.r
        for _ in range(50):
            k = r.random()
            if self.big and k < 0.5:
                nd = r.choice([4299, 4300, 4300])
                t = r.choice(["", "", "-", "+"]) + r.choice("123456789") + "".join(r.choice("0123456789") for _ in range(nd - 1))
                self.used["int_%d_digits%s" % (nd, "_signed" if t[0] in "+-" else "")] += 1
                self.big = False
            elif k < 0.55:
                t = r.choice(INTS)
            elif k < 0.65:
                t = r.choice(["", "", "-", "+"]) + r.choice("123456789") + "".join(r.choice("0123456789") for _ in range(r.randrange(14, 40)))
            elif k < 0.8:
                t = r.choice(["0", "0", "-0", "+0", "00"])
            else:
                t = r.choice(["", "", "", "-", "+"]) + r.choice(["", "", "0", "00"]) + str(r.randrange(0, 70))
            if not positive or ref_int(t) > 0:
                return t
        return "1"

    def int_lit(self, positive=False):
        t = self.int_text(positive)
        v = ref_int(t)
        self.used["int_zero" if v == 0 else "int_>=2**63" if abs(v) >= 2 ** 63 else "int_>=2**53" if abs(v) >= 2 ** 53 else "int_small"] += 1
        return t, v

    def float_lit(self):
        r = self.r
        k = r.random()
        if k < 0.6:
            t = r.choice(FLOATS)
        elif k < 0.75:
            t = r.choice(["", "-", "+"]) + r.choice(["0.0", ".0", "0.00", "00.0"]) + r.choice(["", "", "e0", "E+5", "e-3"])
            if t[0] == ".":
                t = "0" + t  # an unsigned ".0" is not a NUMBER
        else:
            nd = r.randrange(1, 24)
            digits = "".join(r.choice("0123456789") for _ in range(nd))
            cut = r.randrange(0, nd)
            ip, fp = digits[:cut], digits[cut:] or "0"
            sign = r.choice(["", "", "-", "+"])
            if not ip and not sign:
                ip = "0"
            t = sign + ip + "." + fp
            if r.random() < 0.5:
                t += r.choice("eE") + r.choice(["", "-", "+"]) + r.choice(["", "0", "00"]) + str(r.randrange(0, 300))
        v = ref_float(t)
        if v is None:
            t, v = "1.0", 1.0
        self.used["float_zero" if v == 0 else "float_integral" if v == int(v) else "float_denormal" if abs(v) < 2.3e-308 else "float_other"] += 1
        if v == 0 and bits(v) != bits(0.0):
            self.used["float_negative_zero"] += 1
        return t, v

    def let_or_int(self, positive=False):
        """-> (text, expected value) of a `let_or_int`"""
        if self.r.random() < 0.3:
            nm = self.name()
            return nm, nm
        return self.int_lit(positive)

    # ---- emission

    def emit(self, tok, tag=None):
        self.toks.append(tok)
        self.tags.append(tag)
        self.sstart.append(self.cur if self.cur is not None else len(self.toks) - 1)

    # ---- statements

    def gate(self, ctx):
        r = self.r
        nm = self.name()
        self.emit(nm, "gname_" + ctx)
        out = ["gate", nm]
        for _ in range(r.choice([0, 0, 1, 1, 2, 3, 5])):
            k = r.random()
            if k < 0.2:
                a = self.name()
                self.emit(a, "garg")
                out.append(a)
            elif k < 0.45:
                t, v = self.int_lit()
                self.emit(t, "garg_int")
                out.append(v)
            elif k < 0.72:
                t, v = self.float_lit()
                self.emit(t, "garg_num")
                out.append(v)
            else:
                a = self.name()
                self.emit(a, "garg")
                self.emit("[")
                t, v = self.let_or_int()
                self.emit(t, "aidx")
                self.emit("]")
                out.append(("array_item", a, v))
        self.used["gate_args_%d" % min(len(out) - 2, 3)] += 1
        return out

    def items(self, depth, kind):
        """statements of a block body: kind seq | par | case"""
        r = self.r
        pad, sep = ("PARPAD", "PAR") if kind == "par" else ("SEQPAD", "SEQ")
        k = r.choice([0, 0, 1, 1, 2, 3]) if depth < 4 else r.choice([0, 1])
        self.emit(pad)
        out = []
        for i in range(k):
            if i:
                self.emit(sep)
            if kind == "seq":
                out.append(self.inner_seq(depth))
            elif kind == "par":
                out.append(self.gate("par") if (depth >= 4 or r.random() < 0.7) else self.seq_block(depth + 1))
            else:
                b = r.choice(BININTS)
                self.emit(b, "caselabel")
                self.emit(":", "casecolon")
                out.append(["case", ref_bin(b), self.gate_block(depth + 1, "casebody")])
        if k and r.random() < 0.35:
            self.emit(sep)
        if k == 0:
            self.used["empty_%s_body" % kind] += 1
        return out

    def seq_block(self, depth, opentag=None):
        self.emit("{", opentag)
        out = ["sequential_block"] + self.items(depth, "seq")
        self.emit("}")
        return out

    def par_block(self, depth, opentag=None):
        self.emit("<", opentag)
        out = ["parallel_block"] + self.items(depth, "par")
        self.emit(">")
        return out

    def gate_block(self, depth, opentag=None):
        return self.seq_block(depth, opentag) if self.r.random() < 0.65 else self.par_block(depth, opentag)

    def loop(self, depth):
        self.emit("loop", "kw_loop")
        t, v = self.let_or_int()
        self.emit(t, "loopcount")
        if v == 0:
            self.used["loop_count_zero"] += 1
        return ["loop", v, self.gate_block(depth + 1, "loopbody")]

    def subcircuit(self, depth):
        self.emit("subcircuit", "kw_sub")
        if self.r.random() < 0.55:
            t, v = self.let_or_int()
            self.emit(t, "subcount")
            if v == 0:
                self.used["subcircuit_count_zero"] += 1
        else:
            v = ""
            self.used["subcircuit_count_absent"] += 1
        self.emit("{", "subopen")
        out = ["subcircuit_block", v] + self.items(depth + 1, "seq")
        self.emit("}")
        return out

    def inner_seq(self, depth):
        k = self.r.random()
        if depth >= 4 or k < 0.5:
            return self.gate("seq")
        if k < 0.68:
            return self.par_block(depth + 1)
        if k < 0.85:
            return self.loop(depth)
        return self.subcircuit(depth)

    def macro(self):
        self.emit("macro", "kw_macro")
        nm = self.name()
        self.emit(nm, "defname")
        out = ["macro", nm]
        for _ in range(self.r.choice([0, 0, 1, 2, 3])):
            p = self.name()
            self.emit(p, "param")
            out.append(p)
        self.used["macro_params_%d" % min(len(out) - 2, 2)] += 1
        out.append(self.gate_block(1, "macrobody"))
        return out

    def branch(self):
        self.emit("branch", "kw_branch")
        self.emit("{", "branchopen")
        out = ["branch"] + self.items(1, "case")
        self.emit("}")
        return out

    def body(self, kind=None):
        r = self.r
        kind = kind or r.choice(["gate", "gate", "gate", "seq", "par", "loop", "sub", "macro", "macro", "branch"])
        self.used["body_" + kind] += 1
        if kind == "gate":
            return self.gate("top")
        if kind == "seq":
            return self.seq_block(1)
        if kind == "par":
            return self.par_block(1)
        if kind == "loop":
            return self.loop(0)
        if kind == "sub":
            return self.subcircuit(0)
        if kind == "macro":
            return self.macro()
        return self.branch()

    def header(self, kind=None):
        r = self.r
        kind = kind or r.choice(["register", "let", "let", "map", "map", "usepulses", "usepulses"])
        self.used["header_" + kind] += 1
        if kind == "register":
            self.emit("register", "kw_header")
            nm = self.name()
            self.emit(nm, "defname")
            self.emit("[")
            t, v = self.let_or_int(positive=True)
            self.emit(t, "regsize")
            self.emit("]")
            return ["register", nm, v]
        if kind == "let":
            self.emit("let", "kw_header")
            nm = self.name()
            self.emit(nm, "defname")
            t, v = self.float_lit() if r.random() < 0.5 else self.int_lit()
            self.emit(t, "letval")
            return ["let", nm, v]
        if kind == "map":
            self.emit("map", "kw_header")
            nm, src = self.name(), self.name()
            self.emit(nm, "defname")
            self.emit(src, "mapsrc")
            out = ["map", nm, src]
            j = r.random()
            if j < 0.2:
                self.used["map_whole"] += 1
                return out
            self.emit("[")
            if j < 0.45:
                t, v = self.let_or_int()
                self.emit(t, "mapidx")
                self.emit("]")
                self.used["map_index_zero" if v == 0 else "map_index"] += 1
                return out + [v]
            parts = [None, None, None]
            form = r.choice(["a:", ":", "a:b", ":b", "a:b:c", "::c", "a::c", ":b:c"])
            self.used["map_slice_" + form] += 1
            a, rest = form.split(":", 1)
            if a:
                t, parts[0] = self.let_or_int()
                self.emit(t, "mapidx")
            self.emit(":")
            b, _c, c = rest.partition(":")
            if b:
                t, parts[1] = self.let_or_int()
                self.emit(t, "mapidx")
            if c:
                self.emit(":")
                t, parts[2] = self.let_or_int()
                self.emit(t, "mapidx")
            self.emit("]")
            if any(p == 0 and type(p) is int for p in parts):
                self.used["map_slice_part_zero"] += 1
            return out + parts
        p = self.path()
        self.emit("from", "kw_header")
        self.emit(p, "uppath")
        self.emit("usepulses", "upkw")
        self.emit("*", "upstar")
        comps = ref_components(p)
        self.mods.append(comps)
        self.used["usepulses_components_%s%s" % ("rel_" if p[0] == "." else "", min(len(comps), 4))] += 1
        return ["usepulses", comps, "*"]

    def start(self):
        self.toks, self.tags, self.sstart, self.cur, self.mods = [], [], [], None, []
        self.big = self.r.random() < self.big_rate

    def program(self, headers=None, bodies=None):
        """-> expected tree.  Sets toks / tags / sstart / mods / n_header."""
        r = self.r
        self.start()
        nh = r.choice([0, 0, 1, 2, 3, 5]) if headers is None else headers
        nb = r.choice([0, 1, 1, 2, 3, 4]) if bodies is None else bodies
        self.emit("SEQPAD")
        out = ["circuit"]
        for i in range(nh + nb):
            if i:
                self.cur = None
                self.emit("SEQ")
            self.cur = len(self.toks)
            out.append(self.header() if i < nh else self.body())
        self.cur = None
        if nh + nb and r.random() < 0.5:
            self.emit("SEQ")
        self.n_header = nh
        self.used["programs_h%d_b%d" % (min(nh, 1), min(nb, 1))] += 1
        return out

    def header_after_body(self, hkind, bkind, empty):
        """A body consisting of statements of ONE kind (the first one possibly empty), then a header statement.
        -> index of the header statement's first token"""
        r = self.r
        self.start()
        self.emit("SEQPAD")
        for _ in range(r.choice([0, 0, 1, 2])):
            self.cur = len(self.toks)
            self.header()
            self.cur = None
            self.emit("SEQ")
        for i in range(r.choice([1, 1, 2])):
            self.cur = len(self.toks)
            if i == 0 and empty:
                self.empty_body(bkind)
            else:
                self.body(bkind)
            self.cur = None
            self.emit("SEQ")
        at = self.cur = len(self.toks)
        self.header(hkind)
        self.cur = None
        if r.random() < 0.5:
            self.emit("SEQ")
            if r.random() < 0.5:
                self.cur = len(self.toks)
                self.body("gate")
                self.cur = None
        return at

    def empty_body(self, kind):
        if kind == "gate":
            self.emit(self.name(), "gname_top")
        elif kind == "seq":
            self.emit("{"), self.emit("}")
        elif kind == "par":
            self.emit("<"), self.emit(">")
        elif kind == "loop":
            self.emit("loop"), self.emit(self.r.choice(["0", "-0", "1", "n"])), self.emit("{"), self.emit("}")
        elif kind == "sub":
            self.emit("subcircuit")
            if self.r.random() < 0.5:
                self.emit(self.r.choice(["0", "1", "n"]))
            self.emit("{"), self.emit("}")
        elif kind == "macro":
            self.emit("macro"), self.emit(self.name()), self.emit(self.r.choice(["{", "<"]))
            self.emit("}" if self.toks[-1] == "{" else ">")
        else:
            self.emit("branch"), self.emit("{"), self.emit("}")

    def scoped(self):
        """A small well-scoped program for the circuit-level entry points."""
        r = self.r
        self.start()
        self.emit("SEQPAD")
        hdr = [("usepulses", None)] * r.choice([1, 1, 2, 3]) + [("let", None)] * r.choice([0, 1, 2, 3])
        r.shuffle(hdr)
        lets, first = [], True
        reg = r.choice(["q", "r", "reg.a", "_"])
        size = r.randrange(1, 6)
        for kind, _x in hdr + [("register", None)]:
            if not first:
                self.emit("SEQ")
            first = False
            if kind == "usepulses":
                self.header("usepulses")
            elif kind == "let":
                nm = "c%d" % len(lets) + r.choice(["", ".x", "_"])
                lets.append(nm)
                self.emit("let"), self.emit(nm)
                t, _v = self.float_lit() if r.random() < 0.5 else self.int_lit()
                self.emit(t)
            else:
                self.emit("register"), self.emit(reg), self.emit("["), self.emit(str(size)), self.emit("]")
        sigs = {}
        for _ in range(r.choice([0, 1, 2, 4])):
            self.emit("SEQ")
            g = r.choice(["g", "Rx", "foo.bar", "h"])
            if g not in sigs:
                sigs[g] = [r.choice("qqfi") for _ in range(r.choice([0, 1, 2, 3]))]
            self.emit(g)
            for k in sigs[g]:
                if k == "q":
                    self.emit(reg), self.emit("["), self.emit(str(r.randrange(size))), self.emit("]")
                elif k == "f":
                    self.emit(r.choice(lets) if lets and r.random() < 0.3 else self.float_lit()[0])
                else:
                    self.emit(self.int_lit()[0])
        if r.random() < 0.5:
            self.emit("SEQ")


# tag of the replaced token -> (bad tokens, where the lower bound of the error position is: "tok" | "stmt")
_NUMS = ["2.0", "0.0", "-0.0", "1.5", "+.5", "1.0e0", "9007199254740993.0"]
_KW = ["let", "loop", "from", "as", "usepulses", "macro", "register", "map", "subcircuit", "branch", "import"]
BAD = {
    "gname_top": ["1", "-1", "0", "1.5", "-0.0", "'1'", ".a", ".", ",", "*", ":", "]", "["],
    "gname_seq": ["1", "0", "1.5", "'1'", ".a", ",", "*", ":", "]", "{", "macro", "let", "register", "map", "from", "branch", "import"],
    "gname_par": ["1", "0", "1.5", "'1'", ".a", ",", "*", ":", "]", "<", "loop", "subcircuit", "macro", "let", "branch", "from"],
    "garg": ["'1'", "'0'", ".a", ".", ",", "*", ":", "]"] + _KW,
    "garg_int": ["'1'", "'0'", ".a", ".", ",", "*", ":", "]"] + _KW,
    "garg_num": ["'1'", ".a", ",", "*", ":", "]"] + _KW,
    "aidx": _NUMS + ["'1'", ".a", "]", ":", "*", "let", "<", "{"],
    "loopcount": _NUMS + ["'1'", "'0'", ".a", "{", "<", "*", "let", "loop"],
    "subcount": _NUMS + ["'1'", ".a", "<", "*", "loop"],
    "subopen": ["<", "[", "g", "1.5"],
    "regsize": _NUMS + ["'1'", ".a", "]", ":", "*"],
    "defname": ["1", "0", "1.5", "-0.0", "'1'", ".a", "*", "[", "{", "let", "as"],
    "letval": ["a", "b.c", "'1'", "'0'", ".a", "*", "[", "let"],
    "mapsrc": ["1", "0", "1.5", "'1'", ".a", "[", "*"],
    "mapidx": _NUMS + ["'1'", ".a", "*", "{"],
    "uppath": ["1", "0", "1.5", "'1'", "*", "let", "usepulses", "from"],
    "upkw": ["usepulse", "a", "*", "import", "1", "Usepulses"],
    "upstar": ["a", "1", "0", ".a", "'1'", ":", "all"],
    "caselabel": ["0", "1", "a", "1.5", "'2'", "''", "01"],
    "casecolon": ["a", ";", "{", "<"],
    "loopbody": ["g", "1", "1.5", "[", "loop"],
    "casebody": ["g", "1", "'1'"],
    "macrobody": ["1", "1.5", "'1'", "[", "loop", "*"],
    "branchopen": ["<", "[", "'0'", "g"],
}
ZERO_SIZES = ["0", "-1", "-0", "+0", "00", "-007", "-9223372036854775809", "-" + "9" * 40]
INT_SITES = ("garg_int", "aidx", "loopcount", "subcount", "regsize", "letval", "mapidx")
NUM_SITES = ("garg_num", "letval")


# ----------------------------------------------------------------------------------------- evaluation


def line_col(text, off):
    return [1 + text.count("\n", 0, off), off - text.rfind("\n", 0, off)]


def _short(o):
    s = json.dumps(o)
    return s if len(s) < 240 else s[:237] + "..."


def _sx(text, **kw):
    PP = lib()["PP"]
    return guarded(lambda: PP.parse_to_sexpression(text, **kw))


def _cls(text):
    S = lib()["S"]
    return guarded(lambda: S.JaqalParser(source_text=text).parse(S.JaqalLexer().tokenize(text)))


def position_problem(text, o, lb):
    """o = ["perr", line, col]; -> description of what is wrong with the position, or None"""
    line, col = o[1], o[2]
    if line == "EOF" and type(col) is int and col == 0:
        return None
    if type(line) is not int or type(col) is not int:
        return f"position ({line!r}, {col!r}) is neither (\"EOF\", 0) nor two integers"
    if (line, col) not in lib()["token_positions"](text):
        return f"position ({line}, {col}) is not the start of a token of the text"
    if lb is not None and [line, col] < list(lb):
        return f"position ({line}, {col}) is before the first offending token at ({lb[0]}, {lb[1]})"
    return None


def evaluate(case, dist=None):
    """-> {oracle: [detail, …]} for the oracles applicable to the case (empty list = holds)"""
    res = collections.OrderedDict()

    def add(name, detail=None):
        res.setdefault(name, [])
        if detail:
            res[name].append(detail)

    def count(k):
        if dist is not None:
            dist[k] += 1

    text, kind = case["text"], case["kind"]
    if kind == "valid":
        exp = dec(case["expect"])
        mods = [Id(m) for m in case["mods"]]
        add("edge_program_accepted")
        add("tree_is_the_grammars")
        add("usepulses_table_exact")
        o1, t1 = _sx(text)
        calls = [("parse_to_sexpression(text)", o1, t1, False, None)]
        o2, r2 = _sx(text, return_usepulses=True)
        what2 = "parse_to_sexpression(text, return_usepulses=True)"
        if o2[0] == "ok" and not (isinstance(r2, tuple) and len(r2) == 2):
            add("usepulses_table_exact", f"{what2} returned {type(r2).__name__}, not a pair")
        else:
            calls.append((what2, o2, r2[0] if r2 else None, True, r2[1] if r2 else None))
        if case.get("cls"):
            o3, t3 = _cls(text)
            calls.append(("JaqalParser(source_text=text).parse(JaqalLexer().tokenize(text))", o3, t3, False, None))
            count("entry_class")
        for what, o, tree, has_up, up in calls:
            count("entry_calls")
            if o[0] != "ok":
                add("edge_program_accepted", f"{what}: {_short(o)} on a text derivable from the grammar")
                continue
            d = tree_diff(exp, tree)
            if d:
                add("tree_is_the_grammars", f"{what}: {d}")
            if has_up:
                d = table_diff(mods, up)
                if d:
                    add("usepulses_table_exact", f"{what}: {d}")
        # header only
        add("header_only_exact")
        oh, rh = _sx(text, header_only=True, return_usepulses=True)
        hexp = exp[: 1 + case["n_header"]]
        if oh[0] != "ok":
            add("header_only_exact", f"header_only=True: {_short(oh)} on a text derivable from the grammar")
        elif not (isinstance(rh, tuple) and len(rh) == 2):
            add("header_only_exact", f"header_only=True, return_usepulses=True returned {type(rh).__name__}, not a pair")
        else:
            d = tree_diff(hexp, rh[0], "header tree") or table_diff(mods, rh[1])
            if d:
                add("header_only_exact", d)
    elif kind in ("near", "limit"):
        name = "near_miss_rejected_at_or_after" if kind == "near" else "limit_literals_sound"
        lb = case["lb"]
        add(name)
        PP = lib()["PP"]
        calls = [("parse_to_sexpression", _sx(text))]
        if case.get("string_entry", True):
            calls.append(("parse_jaqal_string", guarded(lambda: PP.parse_jaqal_string(text, autoload_pulses=False))))
        for what, (o, raw) in calls:
            count("entry_calls")
            if o[0] == "perr":
                count(kind + "_rejected_at_EOF" if o[1] == "EOF" else kind + "_rejected_at_token")
                if o[1] != "EOF" and [o[1], o[2]] == list(lb):
                    count(kind + "_rejected_exactly_at_offender")
                p = position_problem(text, o, lb)
                if p:
                    add(name, f"{what}: {p} ({case['what']})")
            elif kind == "near":
                if o[0] in ("ok", "jerr") and what == "parse_jaqal_string" and calls[0][1][0][0] == "ok":
                    continue  # already reported for parse_to_sexpression
                got = "accepted" if o[0] == "ok" else _short(o)
                add(name, f"{what}: {got}, but the text is not derivable from the grammar ({case['what']}; a JaqalParseError is required)")
            else:  # limit: accepted, or a wrong exception
                if o[0] == "ok" or (o[0] == "jerr" and what == "parse_jaqal_string"):
                    count("limit_accepted")
                    if what == "parse_to_sexpression" and case.get("expect") is not None:
                        d = tree_diff(dec(case["expect"]), raw)
                        if d:
                            add(name, f"{what} accepts the text but {d}")
                elif o[0] == "exc" and what == "parse_jaqal_string" and calls[0][1][0][0] == "ok":
                    count("limit_builder_exception_" + o[1])  # the text was parsed; the circuit builder is not C02's matter
                else:
                    add(name, f"{what}: {_short(o)} ({case['what']}; a rejection must be a JaqalParseError)")
    elif kind == "scoped":
        PP = lib()["PP"]
        mods = [Id(m) for m in case["mods"]]
        add("circuit_entry_table_exact")
        for what, f in (("parse_jaqal_string(text, autoload_pulses=False, return_usepulses=True)",
                         lambda: PP.parse_jaqal_string(text, autoload_pulses=False, return_usepulses=True)),
                        ("parse_jaqal_string_header(text, return_usepulses=True)",
                         lambda: PP.parse_jaqal_string_header(text, return_usepulses=True))):
            o, raw = guarded(f)
            count("entry_calls")
            if o[0] == "ok":
                count("scoped_circuit_built")
                if not (isinstance(raw, tuple) and len(raw) == 2):
                    add("circuit_entry_table_exact", f"{what} returned {type(raw).__name__}, not a pair")
                    continue
                if not (isinstance(raw[1], dict) and set(raw[1]) == {"usepulses"}):
                    add("circuit_entry_table_exact", f"{what}: second value is {show(raw[1])}, expected {{'usepulses': table}}")
                    continue
                d = table_diff(mods, raw[1])
                if d:
                    add("circuit_entry_table_exact", f"{what}: {d}")
            elif o[0] == "jerr":
                count("scoped_builder_JaqalError")
            elif o[0] == "exc":
                count("scoped_builder_exception_" + o[1])  # raised after parsing: not C02's matter
            else:
                add("circuit_entry_table_exact", f"{what}: {_short(o)} on a text derivable from the grammar")
    else:
        raise KeyError(kind)
    return res


# ------------------------------------------------------------------------------------------------- run


def run(seed: int, n: int, driver: str = DEFAULT_DRIVER, thorough: bool = False) -> dict:
    if thorough:
        n *= 6
    rng = random.Random(seed * 1000003 + 0xC02E)
    L = lib()
    lay = L["Gen"](rng)
    gen = EdgeGen(rng, 0.08 if thorough else 0.04)
    orc = collections.OrderedDict((k, {"cases": 0, "failures": []}) for k in ORACLES)
    dist = collections.Counter()
    samples, seen = [], set()

    def fail(name, case, detail):
        if len(orc[name]["failures"]) < 20:
            c = dict(case)
            c["oracle"] = name
            orc[name]["failures"].append({"case": c, "detail": detail[:1500]})
        dist["oracle_failures_" + name] += 1

    def judge(case):
        seen.add(case["text"])
        dist["stream_" + case["kind"]] += 1
        for name, details in evaluate(case, dist).items():
            orc[name]["cases"] += 1
            if details:
                fail(name, case, "; ".join(details[:3]))
        if len(samples) < 10 and len(case["text"]) < 400 and rng.random() < 0.04:
            samples.append({k: v for k, v in case.items() if k in ("kind", "text", "what", "lb")})

    def render(toks):
        """-> (text, offsets of the tokens in the text)"""
        lay.comment_rate = rng.choice([0.0, 0.05, 0.2, 0.2, 0.5])
        base, offs = lay.render_pos(toks)
        lead, trail = rng.choice(LEADERS), rng.choice(TRAILERS)
        dist["layout_comments_%s" % ("0" if lay.n_comments == 0 else ">=1")] += 1
        return lead + base + trail, [o + len(lead) for o in offs]

    HK = ("register", "let", "map", "usepulses")
    BK = ("gate", "seq", "par", "loop", "sub", "macro", "branch")
    combos = [(h, b, e) for h in HK for b in BK for e in (False, True)]
    for k in range(n):
        # ---- valid: one program, two layouts
        shape = rng.random()
        if shape < 0.06:
            exp = gen.program(headers=0, bodies=0)
        elif shape < 0.14:
            exp = gen.program(bodies=0)
        elif shape < 0.22:
            exp = gen.program(headers=0)
        elif shape < 0.32:
            exp = gen.program(headers=rng.choice([1, 2, 4]), bodies=rng.choice([0, 1]))  # header-heavy: usepulses / let / map values
        else:
            exp = gen.program()
        toks, tags, sstart, mods, n_header = gen.toks, gen.tags, gen.sstart, gen.mods, gen.n_header
        e_exp, e_mods = enc(exp), [list(m) for m in mods]
        dist["program_tokens_%s" % ("<10" if len(toks) < 10 else "<40" if len(toks) < 40 else ">=40")] += 1
        dist["usepulses_statements_%s" % min(len(mods), 2)] += 1
        if len(mods) != len({tuple(m) for m in mods}):
            dist["usepulses_module_repeated"] += 1
        for rep in range(2):
            text, _offs = render(toks)
            judge({"kind": "valid", "text": text, "expect": e_exp, "mods": e_mods, "n_header": n_header, "cls": rep == 1 and k % 3 == 0})
        # ---- near: one leaf replaced by something the grammar forbids there
        sites = [i for i, t in enumerate(tags) if t in BAD]
        for _ in range(2 if sites else 0):
            i = rng.choice(sites)
            tag = tags[i]
            if tag == "regsize" and rng.random() < 0.5:
                bad, lbi, what = rng.choice(ZERO_SIZES), sstart[i], "register size <= 0"
            else:
                bad, lbi = rng.choice(BAD[tag]), i
                what = f"{bad!r} in place of {tag} {toks[i][:30]!r}"
            mt = list(toks)
            mt[i] = bad
            text, offs = render(mt)
            dist["near_" + tag] += 1
            judge({"kind": "near", "text": text, "lb": line_col(text, offs[lbi]), "what": what})
        # ---- near: header after body (every header kind after every body kind, also an empty body statement)
        hk, bk, empty = combos[k % len(combos)]
        at = gen.header_after_body(hk, bk, empty)
        text, offs = render(gen.toks)
        dist["near_header_after_%s%s" % (bk, "_empty" if empty else "")] += 1
        judge({"kind": "near", "text": text, "lb": line_col(text, offs[at]), "what": f"header statement {hk} after a body of {bk} statements"})
        # ---- limit: over-long integers / out-of-range numbers (every 4th program; they are slow to lex)
        if k % 4 == 0:
            isites = [i for i, t in enumerate(tags) if t in INT_SITES]
            nsites = [i for i, t in enumerate(tags) if t in NUM_SITES]
            if isites and (not nsites or rng.random() < 0.6):
                i = rng.choice(isites)
                nd = rng.choice([4301, 4301, 4302, 5000, 9000])
                lit = rng.choice(["", "", "-", "+"]) + rng.choice(["", "", "0"]) + "".join(rng.choice("0123456789") for _ in range(nd))
                if rng.random() < 0.1:
                    lit = rng.choice(["", "-"]) + "0" * nd
                mt = list(toks)
                mt[i] = lit
                # expected tree if the text is accepted: the same program with that leaf replaced
                want = None
                if not (tags[i] == "regsize" and ref_int(lit) <= 0):
                    want = enc(_replace_leaf(exp, toks, tags, i, ref_int(lit)))
                text, offs = render(mt)
                dist["limit_int_" + tags[i]] += 1
                judge({"kind": "limit", "text": text, "lb": line_col(text, offs[sstart[i] if tags[i] == "regsize" else i]), "expect": want,
                       "what": f"integer literal of {nd} digits as {tags[i]}", "string_entry": tags[i] != "regsize"})
            elif nsites:
                i = rng.choice(nsites)
                lit = rng.choice(TOO_BIG_FLOATS)
                mt = list(toks)
                mt[i] = lit
                text, offs = render(mt)
                dist["limit_float_" + tags[i]] += 1
                judge({"kind": "limit", "text": text, "lb": line_col(text, offs[i]), "expect": None, "what": f"number {lit[:24]} beyond the float range as {tags[i]}"})
        # ---- scoped: circuit-level entry points
        if k % 3 == 0:
            gen.scoped()
            text, _offs = render(gen.toks)
            judge({"kind": "scoped", "text": text, "mods": [list(m) for m in gen.mods]})
    for key, v in gen.used.items():
        dist["gen_" + key] += v
    nontrivial = len({t for t in seen if len(t.split()) >= 3})
    return {"corr": {}, "oracle": dict(orc), "distribution": dict(dist), "samples": samples, "nontrivial": nontrivial}


def _replace_leaf(exp, toks, tags, i, value):
    """The expected tree with the leaf generated by token i replaced by `value`.  Leaves appear in the tree in the
    order of their tokens, so the leaf is found by counting the value-bearing tokens before it."""
    VALUE_TAGS = ("garg_int", "garg_num", "aidx", "loopcount", "subcount", "regsize", "letval", "mapidx", "caselabel")
    rank = sum(1 for j in range(i) if tags[j] in VALUE_TAGS)
    counter = [0]

    def walk(node, head, pos):
        """copy of node; value leaves are counted in order"""
        if isinstance(node, Id):
            return node
        if isinstance(node, (list, tuple)):
            h = node[0] if node and isinstance(node[0], str) else None
            out = [walk(a, h, j) for j, a in enumerate(node)]
            return out
        if _is_value_leaf(node, head, pos):
            counter[0] += 1
            if counter[0] - 1 == rank:
                return value
        return node

    return walk(exp, None, 0)


def _is_value_leaf(node, head, pos):
    """Is `node`, entry `pos` of a node with head `head`, a leaf generated by a value-bearing token?"""
    if pos == 0:
        return False
    if head == "gate":
        return pos >= 2 and type(node) in (int, float)
    if head == "array_item":
        return pos == 2
    if head == "loop":
        return pos == 1
    if head == "subcircuit_block":
        return pos == 1 and node != ""
    if head == "register":
        return pos == 2
    if head == "let":
        return pos == 2
    if head == "map":
        return pos >= 3 and node is not None
    if head == "case":
        return pos == 1
    return False


def replay(case: dict, driver: str = DEFAULT_DRIVER) -> dict:
    """Re-run one `failures` entry."""
    res = evaluate(case)
    details = res.get(case.get("oracle"), [])
    return {"oracle_ok": not details, "detail": "; ".join(details[:3])[:1500]}


def main():
    ap = argparse.ArgumentParser()
    ap.add_argument("--n", type=int, default=150)
    ap.add_argument("--seed", type=int, default=20260924)
    ap.add_argument("--thorough", action="store_true")
    ap.add_argument("--json", action="store_true")
    args = ap.parse_args()
    res = run(args.seed, args.n, DEFAULT_DRIVER, args.thorough)
    if args.json:
        print(json.dumps(res))
    else:
        print("== c02_edge ==")
        for name, o in res["oracle"].items():
            print(f"  oracle {name:32s} cases {o['cases']:7d}  failures {len(o['failures'])}")
            for f in o["failures"][:5]:
                print("    FAIL", f["detail"][:400])
                print("         text:", repr(f["case"]["text"])[:300])
        print("  nontrivial distinct texts:", res["nontrivial"])
        for k in sorted(res["distribution"]):
            print(f"    {k:52s} {res['distribution'][k]}")
    sys.exit(1 if any(o["failures"] for o in res["oracle"].values()) else 0)


if __name__ == "__main__":
    main()
