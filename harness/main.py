"""Entry point: /verif/check <ID> [--tier quick|thorough] [--replay FILE]"""
import argparse
import importlib
import json
import os
import sys
import time
import traceback

from . import common
from . import source_pins
from . import textnoise
from .common import Result, Rng, log


class Ctx:
    def __init__(self, pid, tier, seed):
        self.pid = pid
        self.tier = tier
        self.seed = seed
        self.rng = Rng(seed, pid)
        self.driver = None
        self.deadline = time.time() + (240 if tier == "quick" else 1500)

    def n(self, quick, thorough):
        """Case count for this tier."""
        return quick if self.tier == "quick" else thorough

    def time_left(self):
        return self.deadline - time.time()


def load_prop(pid):
    return importlib.import_module(f"harness.props.{pid.lower()}")


OWNED_TABLES = {"C02": ("LexerRules.lean",), "C11": ("Effects.lean",)}


def restore_pinned_tables(skip=()):
    pin = os.path.join(common.ROOT, "harness", "pinned_tables")
    gen = os.path.join(common.LEAN, "JaqalModel", "Generated")
    for name in sorted(os.listdir(pin)):
        if name in skip:
            continue
        want = open(os.path.join(pin, name), encoding="utf-8").read()
        path = os.path.join(gen, name)
        try:
            have = open(path, encoding="utf-8").read()
        except OSError:
            have = None
        if have != want:
            with open(path, "w", encoding="utf-8") as f:
                f.write(want)


def lean_stage(prop, ctx, res):
    """Regenerate tables, build, audit, elaborate the property's theorem files."""
    # every check is self-contained: the tables another property's check regenerates from the source (C02: token rules,
    # C11: mutation sites) are put back to their pinned content first, so that what an earlier run left behind — possibly
    # on another state of the source — cannot break this build; the owner regenerates its table from the current source
    restore_pinned_tables(skip=OWNED_TABLES.get(res.pid, ()))
    gen = getattr(prop, "generate_tables", None)
    if gen:
        try:
            gen(ctx, res)
        except Exception as e:  # translator failure = broken tie
            res.broken.append(("table", "extract", f"{type(e).__name__}: {e}"))
    targets = list(getattr(prop, "LAKE_TARGETS", []))
    ok, out = common.lake_build(targets + ["jaqal-model"])
    if not ok:
        tail = "\n".join(l for l in out.split("\n") if "error" in l.lower())[:4000]
        res.broken.append(("build", " ".join(targets), tail or out[-3000:]))
        # the driver may still be buildable even if a proof file is not
        ok2, _ = common.lake_build(["jaqal-model"])
        if not ok2:
            res.broken.append(("build", "jaqal-model", "model driver does not build"))
    hits = common.audit_sources()
    for h in hits:
        res.broken.append(("audit", h, "forbidden construct in Lean sources"))
    files = list(getattr(prop, "PROPS_FILES", []))
    checker = []
    for rel in files:
        path = os.path.join(common.LEAN, rel)
        names = common.property_theorems(path)
        if "/Lemmas/" in rel:
            # a lemma file listed for a property: only its property-level theorems (Cxx_…) are obligations
            import re as _re
            names = [n for n in names if _re.match(r"C\d\d", n.split(".")[-1])]
        okf, ax, outf = common.check_props_file(rel, names)
        checker.append(f"cd lean && lake env lean {rel}")
        for n in names:
            res.obligations.append(n)
            a = ax.get(n)
            if a is None:
                if okf:
                    res.broken.append(("audit", n, f"`#print axioms {n}` gave no result (name not found?)"))
                else:
                    res.broken.append(("theorem", n, "does not check (see build log)"))
            elif not a <= common.ALLOWED_AXIOMS:
                res.broken.append(("audit", n, f"axioms {sorted(a)} not within {sorted(common.ALLOWED_AXIOMS)}"))
            else:
                res.discharged.append(n)
        if not okf:
            errs = [l for l in outf.split("\n") if ": error:" in l][:10]
            res.broken.append(("theorem-file", rel, "\n".join(errs)))
    if ctx.tier == "thorough" and files:
        mods = [f[:-5].replace("/", ".") for f in files]
        rc, out = common._run(["lake", "env", "leanchecker", *mods], cwd=common.LEAN, timeout=3000)
        checker.append("cd lean && lake env leanchecker " + " ".join(mods))
        res.extra["leanchecker"] = "ok" if rc == 0 else out[-1500:]
        if rc != 0:
            res.broken.append(("leanchecker", " ".join(mods), out[-1500:]))
    res.checker_cmd = " && ".join(checker) or "cd lean && lake build"
    if files and not res.obligations:
        res.broken.append(("theorem-file", ",".join(files), "no property theorem found"))
    if os.path.exists(common.DRIVER):
        ctx.driver = common.Driver()


def classify(prop, res):
    """Split failures into known findings and new violations."""
    known = [f for f in common.load_known_findings() if f.get("property") == res.pid and f.get("status") == "open"]
    matcher = getattr(prop, "matches_known", None)
    new = []
    for fl in res.failures:
        hit = None
        if matcher:
            for kf in known:
                try:
                    if matcher(kf, fl):
                        hit = kf
                        break
                except Exception:
                    pass
        if hit is not None:
            res.known_hits.append((hit, hit.get("what", hit.get("id"))))
        else:
            new.append(fl)
    return known, new


def main(argv=None):
    ap = argparse.ArgumentParser()
    ap.add_argument("pid")
    ap.add_argument("--tier", default=os.environ.get("VERIF_TIER", "quick"), choices=["quick", "thorough"])
    ap.add_argument("--replay")
    args = ap.parse_args(argv)
    pid = args.pid.upper()
    seed = common.seed_from_env()
    ctx = Ctx(pid, args.tier, seed)
    res = Result(pid, args.tier, seed)
    if pid in textnoise.PIDS and not os.environ.get("VERIF_NO_TEXTNOISE"):
        # cross-cutting input dimension: semantics-preserving comments / blank lines / trailing blanks on the texts
        # this property's streams hand to parse_jaqal_string (harness/textnoise.py)
        textnoise.install()
    try:
        prop = load_prop(pid)
    except ModuleNotFoundError:
        print(f"no check for {pid}")
        return 2
    res.trusted = list(getattr(prop, "TRUSTED", []))
    res.assumptions = list(getattr(prop, "ASSUMPTIONS", []))

    if args.replay:
        lean_stage(prop, ctx, res)
        payload = json.load(open(args.replay))
        return prop.replay(ctx, res, payload)

    try:
        lean_stage(prop, ctx, res)
        prop.run(ctx, res)
        # change-directed escalation (harness/source_pins.py): the correspondence was validated against the pinned
        # source; when the library's source differs from it and the every-day sample found nothing, run one round of the
        # failing-input search as well.  A drift alone is never a verdict.
        drift = source_pins.drift()
        res.extra["source_drift"] = drift[:40]
        if drift and not res.failures and not res.broken and getattr(prop, "search", None) and not os.environ.get("VERIF_NO_ESCALATION"):
            ctx.search_rounds = 1
            t0 = time.time()
            ctx.search_deadline = t0 + (150 if ctx.tier == "quick" else 600)  # no further stream is started after this
            prop.search(ctx, res, [])
            ctx.search_rounds = 3
            ctx.search_deadline = None
            res.extra["escalated_search_s"] = round(time.time() - t0, 1)
    except Exception as e:
        tb = traceback.format_exc()
        log(tb)
        lib = os.path.join(os.path.realpath(common.REPO), "src", "jaqalpaq")
        raised_in_library = any(os.path.realpath(fr.filename).startswith(lib) for fr in traceback.extract_tb(e.__traceback__))
        if raised_in_library:
            # the real code raised something the property module cannot digest (it does not on the tree the
            # module was written against): the tie between model / oracle and implementation is broken
            res.notes.append("property module stopped by an exception raised inside the library: " + tb[-2000:])
            res.failures.append({"kind": "corr", "what": "property-module:crash", "case": None, "model": None,
                                 "impl": f"{type(e).__name__}: {e}", "module": None, "detail": tb[-1500:]})
        else:
            print(f"INFRASTRUCTURE-ERROR property={pid} {type(e).__name__}: {e}")
            res.notes.append("infrastructure error: " + tb[-2000:])
            common.write_evidence(res, 0)
            return 2

    if textnoise.installed:
        res.extra["text_noise"] = dict(textnoise.stats)
    known, new = classify(prop, res)
    # report each known finding once
    seen = set()
    for kf, what in res.known_hits:
        if kf.get("id") not in seen:
            seen.add(kf.get("id"))
            print(f"KNOWN-FINDING: property={pid} {what}")

    violations = 0
    oracle_new = [f for f in new if f["kind"] == "oracle"]
    corr_new = [f for f in new if f["kind"] == "corr"]
    if not oracle_new and (res.broken or corr_new):
        # the proof or the correspondence no longer checks: search the implementation for a failing input
        search = getattr(prop, "search", None)
        if search:
            try:
                before = len(res.failures)
                search(ctx, res, corr_new)
                extra = res.failures[before:]
                matcher = getattr(prop, "matches_known", None)
                for fl in extra:
                    if fl["kind"] == "oracle" and not any(matcher and matcher(kf, fl) for kf in known):
                        oracle_new.append(fl)
            except Exception:
                res.notes.append("search failed: " + traceback.format_exc()[-1500:])
    if oracle_new:
        shrink = getattr(prop, "shrink", None)
        fl = oracle_new[0]
        if shrink:
            try:
                fl = shrink(ctx, fl) or fl
            except Exception:
                pass
        path = common.write_replay(res, 0, {"property": pid, "kind": "failing-input", "oracle": fl["what"], "case": fl["case"], "detail": fl.get("detail"), "seed": seed, "tier": args.tier, "others": len(oracle_new) - 1})
        print(f"VIOLATION property={pid} replay={path}")
        violations = len(oracle_new)
    elif res.broken or corr_new:
        payload = {
            "property": pid,
            "kind": "broken-obligation",
            "broken": [list(b) for b in res.broken],
            "correspondence_disagreements": corr_new[:5],
            "seed": seed,
            "tier": args.tier,
            "note": "the theorem / correspondence named here no longer checks against /repo's current source; no input on which the implementation violates the property was found by the search",
        }
        path = common.write_replay(res, 0, payload)
        print(f"VIOLATION property={pid} replay={path} no-failing-input-found")
        violations = max(1, len(corr_new))
    common.write_evidence(res, violations)
    if violations:
        return 1
    print(f"OK property={pid} tier={args.tier} seed={seed} obligations={len(res.obligations)} discharged={len(res.discharged)} cases={res.evaluations}")
    return 0


if __name__ == "__main__":
    sys.exit(main())
