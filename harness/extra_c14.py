"""Direct oracle for C14 on the real pipeline: whatever the stage at which a value becomes known
(parse, let substitution with overrides, macro expansion, emulation), a program with an out-of-range
index / slice / wrong kind never yields a result — it raises JaqalError — and a valid one runs on
exactly the reference qubit."""
import signal
import warnings

import numpy

from . import gates
from . import timeouts as _T

G = gates.GATES


def _ref_alias(n, start, stop, step):
    return list(range(start, stop, step))


def extra_run(ctx, res):
    from jaqalpaq.parser import parse_jaqal_string
    from jaqalpaq.emulator import run_jaqal_circuit
    from jaqalpaq.core.algorithm import fill_in_let
    from jaqalpaq.error import JaqalError

    warnings.filterwarnings("ignore")
    rng = ctx.rng.sub("extra_c14")

    def alarm(*a):
        raise TimeoutError()

    signal.signal(signal.SIGALRM, alarm)
    for t in range(ctx.n(400, 4000)):
        n = rng.randint(1, 4)
        start = rng.choice([0, 0, 1, -1, n - 1, n])
        stop = rng.choice([n, n, n - 1, n + 1, 0, 1])
        step = rng.choice([1, 1, 2, -1, 0])
        idx = rng.choice([0, 1, -1, n - 1, n, n + 1])
        how = rng.choice(["literal", "let", "override", "macro", "let-size", "override-size"])
        alias = rng.random() < 0.6
        size_expr, idx_expr, lets, ov = str(n), str(idx), [], {}
        if how == "let":
            lets.append(("i", idx)); idx_expr = "i"
        elif how == "override":
            lets.append(("i", 0)); idx_expr = "i"; ov["i"] = idx
        elif how == "let-size":
            lets.append(("m", n)); size_expr = "m"
        elif how == "override-size":
            lets.append(("m", n + 2)); size_expr = "m"; ov["m"] = n
        text = "".join(f"let {a} {b}\n" for a, b in lets) + f"register r[{size_expr}]\n"
        target = "r"
        if alias:
            text += f"map a r[{start}:{stop}:{step}]\n"
            target = "a"
        if how == "macro":
            text += f"macro m k {{ X {target}[k] }}\nprepare_all\nm {idx}\nmeasure_all\n"
        else:
            text += f"prepare_all\nX {target}[{idx_expr}]\nmeasure_all\n"
        # reference
        try:
            elems = list(range(start, stop, step)) if alias else list(range(n))
            valid_alias = (not alias) or (step != 0 and start >= 0 and all(0 <= e < n for e in elems) and stop <= n)
        except ValueError:
            elems, valid_alias = [], False
        valid = valid_alias and 0 <= idx < len(elems)
        want = elems[idx] if valid else None
        case = {"text": text, "override": ov, "how": how}
        res.count(f"c14 {how} {'alias' if alias else 'direct'} {'valid' if valid else 'invalid'}")
        signal.alarm(_T.limit())
        try:
            c = parse_jaqal_string(text, inject_pulses=G, autoload_pulses=False)
            if ov:
                c = fill_in_let(c, ov)
            r = run_jaqal_circuit(c)
            v = r.subcircuits[0].state_vector
            hit = int(numpy.argmax(numpy.abs(v)))
            if not valid:
                res.oracle_case("invalid_reference_rejected", False, case, f"accepted and ran; state index {hit}")
            else:
                res.oracle_case("valid_reference_runs_on_reference_qubit", hit == (1 << want), case, f"acted on basis state {hit}, expected qubit {want}")
        except JaqalError as e:
            if valid:
                res.oracle_case("valid_reference_runs_on_reference_qubit", False, case, f"rejected: {e}")
            else:
                res.oracle_case("invalid_reference_rejected", True, case)
        except TimeoutError:
            _T.saw_hang()
            res.oracle_case("terminates", False, case, "timeout")
        except Exception as e:  # any other exception class
            res.oracle_case("rejection_is_jaqalerror", False, case, f"{type(e).__name__}: {e}")
        finally:
            signal.alarm(0)
