"""Open known finding of C10 (known_findings.txt, id subs-bounding-not-reparsable): its two witnesses, run on every check, and the
matcher that recognises exactly this failure shape among oracle failures.

`expand_subcircuits` wraps every subcircuit block in `prepare_all … measure_all` with NO arguments, taking the definitions from the
circuit's native gate table when they are there and inventing a parameterless definition otherwise.  The text of the result does not
parse back (C10, last clause) in two shapes, both proved in the Lean model (Props/C10Text.lean: C10_text_subs_refuted,
C10_text_subs_refuted_natives) and reproduced on the real code here:

  arity    no gate set in force and the program itself calls the bounding gate WITH arguments (`prepare_all r[0]`): on re-parsing,
           the first call fixes the arity of the anonymous definition and the other is refused ("Too many parameters …");
  natives  a gate set in force that does not define the bounding gate: the inserted call names a gate that is not native
           ("No gate prepare_all defined").
"""
import re

BOUNDING = ("prepare_all", "measure_all")
W_ARITY = "register r[1]\nsubcircuit { g r[0] }\nprepare_all r[0]\n"
W_NATIVES = "register r[1]\nsubcircuit { g }\n"


def shape(text, native_names):
    """-> 'arity' | 'natives' | None for a program text and the names of the gate set in force (None / empty = no gate set)"""
    if not text or "subcircuit" not in text:
        return None
    if native_names:
        return "natives" if any(b not in native_names for b in BOUNDING) else None
    for b in BOUNDING:
        # a call of the bounding gate with at least one argument on the same statement
        if re.search(r"(?:^|[\n;|{<])\s*" + b + r"[ \t]+[^\s;|}>]", text):
            return "arity"
    return None


def matches_known(kf, fl):
    if not str(kf.get("id", "")).startswith("subs-bounding-not-reparsable"):
        return False
    if not str(fl.get("what", "")).startswith("legal_after_pass"):
        return False
    case = fl.get("case") or {}
    if not isinstance(case, dict):
        return False
    passes = case.get("passes") or case.get("history") or []
    if not any("sub" in str(p) for p in passes):
        return False
    return shape(case.get("text"), case.get("natives")) is not None


def extra_run(ctx, res):
    """Run the two witnesses on the real code (reported as KNOWN-FINDING through the normal path) and their controls."""
    from jaqalpaq.parser import parse_jaqal_string
    from jaqalpaq.core.algorithm import expand_subcircuits
    from jaqalpaq.generator import generate_jaqal_program
    from jaqalpaq.core import GateDefinition
    from jaqalpaq.error import JaqalError

    def trip(text, natives):
        kw = dict(autoload_pulses=False)
        if natives:
            kw["inject_pulses"] = {n: GateDefinition(n, []) for n in natives}
        c = parse_jaqal_string(text, **kw)
        t = generate_jaqal_program(expand_subcircuits(c))
        try:
            parse_jaqal_string(t, **kw)
            return True, t
        except JaqalError as e:
            return False, f"{t!r}: {e}"

    for name, text, natives in (("arity", W_ARITY, None), ("natives", W_NATIVES, ["g"])):
        ok, detail = trip(text, natives)
        res.oracle_case(
            "legal_after_pass",
            ok,
            {"text": text, "natives": natives, "passes": ["expand_subcircuits"], "witness_of": "subs-bounding-not-reparsable:" + name},
            "the text generated from expand_subcircuits(c) does not parse back under the configuration c was parsed with: " + detail,
        )
        if ok:
            res.notes.append(f"known finding subs-bounding-not-reparsable ({name}) no longer reproduces")
    # controls: the same programs without the odd feature round-trip (a failure here is NOT the known finding)
    for text, natives in (("register r[1]\nsubcircuit { g r[0] }\n", None), ("register r[1]\nsubcircuit { g }\n", ["g", "prepare_all", "measure_all"])):
        ok, detail = trip(text, natives)
        res.oracle_case("legal_after_pass", ok, {"text": text, "natives": natives, "passes": ["expand_subcircuits"], "control": True}, detail)
