"""Shared infrastructure of the verification harness (run with /venv/bin/python).

Every check goes through `run_check` (main.py): build the Lean obligations of the property,
audit them, run the model/implementation correspondence and the direct oracles, search for a
failing input when anything broke, write evidence, print the verdict.
"""
import fcntl
import hashlib
import json
import os
import random
import re
import subprocess
import sys
import time

ROOT = os.path.dirname(os.path.dirname(os.path.abspath(__file__)))
LEAN = os.path.join(ROOT, "lean")
EVIDENCE = os.path.join(ROOT, "evidence")
if os.environ.get("JAQALPAQ_REPO") and os.path.realpath(os.environ["JAQALPAQ_REPO"]) != "/repo":
    # a run against a scratch worktree (seed testing): its evidence is not evidence about /repo
    EVIDENCE = os.path.join(ROOT, "replays", "scratch-evidence")
REPLAYS = os.path.join(ROOT, "replays")
CORPUS = os.path.join(ROOT, "corpus")
DRIVER = os.path.join(LEAN, ".lake", "build", "bin", "jaqal-model")
REPO = os.environ.get("JAQALPAQ_REPO", "/repo")

ALLOWED_AXIOMS = {"propext", "Classical.choice", "Quot.sound"}
FORBIDDEN = re.compile(
    r"\b(sorry|admit|native_decide|bv_decide|implemented_by|unsafe)\b|^\s*axiom\s|maxHeartbeats\s+0\b"
)


def log(*a):
    print(*a, file=sys.stderr, flush=True)


def seed_from_env():
    try:
        return int(os.environ.get("VERIF_SEED", "0"))
    except ValueError:
        return 0


class Rng(random.Random):
    """One PRNG per check; sub-streams derive from (seed, label) so a case replays exactly."""

    def __init__(self, seed, label=""):
        h = hashlib.sha256(f"{seed}:{label}".encode()).digest()
        super().__init__(int.from_bytes(h[:8], "big"))
        self.base_seed = seed
        self.label = label

    def sub(self, label):
        return Rng(self.base_seed, f"{self.label}/{label}")


# ---------------------------------------------------------------------------------------
# Lean side


def _run(cmd, cwd=None, timeout=3600, input=None):
    p = subprocess.run(cmd, cwd=cwd, capture_output=True, text=True, timeout=timeout, input=input)
    return p.returncode, p.stdout + p.stderr


class BuildLock:
    def __enter__(self):
        os.makedirs(os.path.join(LEAN, ".lake"), exist_ok=True)
        self.f = open(os.path.join(LEAN, ".lake", "verif.lock"), "w")
        fcntl.flock(self.f, fcntl.LOCK_EX)
        return self

    def __exit__(self, *a):
        fcntl.flock(self.f, fcntl.LOCK_UN)
        self.f.close()


def lake_build(targets):
    """Build the given lake targets (incremental). Returns (ok, log)."""
    with BuildLock():
        rc, out = _run(["lake", "build", *targets], cwd=LEAN, timeout=3000)
    return rc == 0, out


def strip_lean_comments(src):
    """Remove /- … -/ (nested) and -- comments, keep line structure."""
    out = []
    i = 0
    depth = 0
    n = len(src)
    while i < n:
        if src.startswith("/-", i):
            depth += 1
            i += 2
        elif depth and src.startswith("-/", i):
            depth -= 1
            i += 2
        elif depth:
            if src[i] == "\n":
                out.append("\n")
            i += 1
        elif src.startswith("--", i):
            while i < n and src[i] != "\n":
                i += 1
        elif src[i] == '"':
            j = i + 1
            while j < n and src[j] != '"':
                j += 2 if src[j] == "\\" else 1
            out.append('""')
            i = j + 1
        else:
            out.append(src[i])
            i += 1
    return "".join(out)


def audit_sources():
    """Grep every Lean source of the development for forbidden constructs (comments and string
    literals stripped). Returns list of 'file:line: text'."""
    hits = []
    for base in ("JaqalModel", "JaqalProofs"):
        for dp, _dn, fns in os.walk(os.path.join(LEAN, base)):
            for fn in fns:
                if not fn.endswith(".lean"):
                    continue
                p = os.path.join(dp, fn)
                code = strip_lean_comments(open(p).read())
                for k, line in enumerate(code.split("\n"), 1):
                    if FORBIDDEN.search(line):
                        hits.append(f"{os.path.relpath(p, LEAN)}:{k}: {line.strip()}")
    for fn in ("Main.lean",):
        p = os.path.join(LEAN, fn)
        code = strip_lean_comments(open(p).read())
        for k, line in enumerate(code.split("\n"), 1):
            if re.search(r"\b(sorry|admit|native_decide|bv_decide|implemented_by)\b|^\s*axiom\s", line):
                hits.append(f"{fn}:{k}: {line.strip()}")
    return hits


THEOREM_RE = re.compile(r"^\s*(?:@\[[^\]]*\]\s*)?(?:private\s+|protected\s+)?theorem\s+([^\s(\[{:]+)")
NS_RE = re.compile(r"^\s*namespace\s+([\w.]+)")
END_RE = re.compile(r"^\s*end\s+([\w.]+)\s*$")


def property_theorems(props_file):
    """Fully qualified names of the theorems stated in a Props file (comments stripped;
    `namespace`/`end` tracked line by line; private theorems are skipped)."""
    code = strip_lean_comments(open(props_file).read())
    stack = []
    names = []
    for line in code.split("\n"):
        m = NS_RE.match(line)
        if m:
            stack.append(m.group(1))
            continue
        m = END_RE.match(line)
        if m and stack and stack[-1] == m.group(1):
            stack.pop()
            continue
        m = THEOREM_RE.match(line)
        if m and "private" not in line.split("theorem")[0]:
            names.append(".".join(stack + [m.group(1)]))
    return names


AX_RE = re.compile(r"'([^']+)' depends on axioms: \[([^\]]*)\]")
NOAX_RE = re.compile(r"'([^']+)' does not depend on any axioms")
# names may end in primes: anchor on the message kind and on what follows the closing quote
AX2_RE = re.compile(r"(?:^|\s)'(\S+?)' (?:depends on axioms: \[([^\]]*)\]|does not depend on any axioms)")


def check_props_file(rel, names):
    """Re-elaborate one Props file with `lake env lean` (re-checks its proofs against the freshly
    built dependencies), then print the axioms of every theorem named in it from a generated audit
    file. Returns (ok, axioms: full name -> set, log)."""
    with BuildLock():
        pass  # wait for any build in progress
    rc, out = _run(["lake", "env", "lean", rel], cwd=LEAN, timeout=3000)
    has_err = rc != 0 or re.search(r"(^|\n)[^\n]*: error:", out) is not None
    ax = {}
    if names:
        mod = rel[:-5].replace("/", ".")
        audit_dir = os.path.join(LEAN, ".lake", "audit")
        os.makedirs(audit_dir, exist_ok=True)
        apath = os.path.join(audit_dir, mod.replace(".", "_") + ".lean")
        with open(apath, "w") as f:
            f.write(f"import {mod}\n" + "".join(f"#print axioms {n}\n" for n in names))
        rc2, out2 = _run(["lake", "env", "lean", apath], cwd=LEAN, timeout=3000)
        flat = out2.replace("\n ", " ").replace("\n", " ")
        for m in AX2_RE.finditer(flat):
            if m.group(2) is None:
                ax[m.group(1)] = set()
            else:
                ax[m.group(1)] = {a.strip() for a in m.group(2).split(",") if a.strip()}
        out += "\n" + out2
    return (not has_err), ax, out


class Driver:
    """Batch interface to the compiled Lean model (line protocol)."""

    def __init__(self):
        if not os.path.exists(DRIVER):
            raise RuntimeError("model driver not built: " + DRIVER)

    def batch(self, requests, timeout=1800):
        """requests: list of dicts with 'op'. Returns list of results: ('out', value) | ('err', msg)."""
        if not requests:
            return []
        data = "\n".join(json.dumps(r, separators=(",", ":")) for r in requests) + "\n"
        p = subprocess.run([DRIVER], input=data, capture_output=True, text=True, timeout=timeout)
        lines = [l for l in p.stdout.split("\n") if l.strip()]
        if len(lines) != len(requests):
            raise RuntimeError(
                f"driver returned {len(lines)} lines for {len(requests)} requests; rc={p.returncode}; stderr={p.stderr[:2000]}"
            )
        res = []
        for l in lines:
            j = json.loads(l)
            if "out" in j:
                res.append(("out", j["out"]))
            else:
                res.append(("err", j.get("err")))
        return res


# ---------------------------------------------------------------------------------------
# Known findings


KF_FILE = os.path.join(ROOT, "known_findings.txt")


def load_known_findings():
    """Parse known_findings.txt. Returns list of dicts {status, property, ...}."""
    out = []
    if not os.path.exists(KF_FILE):
        return out
    for line in open(KF_FILE):
        line = line.strip()
        if not line or line.startswith("#"):
            continue
        if line.startswith("fixed:"):
            m = re.match(r"fixed:\s+property=(\S+)\s+(\S+)\s+(.*)", line)
            if m:
                out.append({"status": "fixed", "property": m.group(1), "commit": m.group(2), "what": m.group(3)})
        elif line.startswith("open:"):
            m = re.match(r"open:\s+property=(\S+)\s+id=(\S+)\s+match=(\{.*?\})\s+what=(.*)", line)
            if m:
                out.append({"status": "open", "property": m.group(1), "id": m.group(2), "match": json.loads(m.group(3)), "what": m.group(4)})
    return out


# ---------------------------------------------------------------------------------------
# Evidence / verdict


def canon(obj):
    return json.dumps(obj, sort_keys=True, separators=(",", ":"), default=str)


class Result:
    """Accumulates what a check run covered and found."""

    def __init__(self, pid, tier, seed):
        self.pid = pid
        self.tier = tier
        self.seed = seed
        self.t0 = time.time()
        self.obligations = []  # theorem names
        self.discharged = []
        self.broken = []  # (kind, name, detail): kind in {"theorem","build","audit","table","corr"}
        self.corr = {}  # op -> {"cases":n,"disagreements":n}
        self.oracle = {}  # oracle -> {"cases":n,"failures":n}
        self.samples = []
        self.distribution = {}
        self.nontrivial = set()
        self.evaluations = 0
        self.failures = []  # dicts: {"kind":"oracle"|"corr", "what":..., "case":...}
        self.known_hits = []  # (finding, what)
        self.notes = []
        self.trusted = []
        self.assumptions = []
        self.checker_cmd = ""
        self.extra = {}

    # -- bookkeeping used by property modules
    def count(self, key, n=1):
        self.distribution[key] = self.distribution.get(key, 0) + n

    def case(self, op, case, nontrivial=True):
        self.evaluations += 1
        c = self.corr.setdefault(op, {"cases": 0, "disagreements": 0})
        c["cases"] += 1
        if nontrivial:
            self.nontrivial.add(hashlib.sha1((op + canon(case)).encode()).hexdigest())
        if len([s for s in self.samples if s.get("op") == op]) < 2:
            self.samples.append({"op": op, "case": case})

    def disagree(self, op, case, model, impl):
        c = self.corr.setdefault(op, {"cases": 0, "disagreements": 0})
        c["disagreements"] += 1
        self.failures.append({"kind": "corr", "what": op, "case": case, "model": model, "impl": impl})

    def oracle_case(self, name, ok, case=None, detail=None, nontrivial=True):
        self.evaluations += 1
        o = self.oracle.setdefault(name, {"cases": 0, "failures": 0})
        o["cases"] += 1
        if nontrivial and case is not None:
            self.nontrivial.add(hashlib.sha1((name + canon(case)).encode()).hexdigest())
        if not ok:
            o["failures"] += 1
            self.failures.append({"kind": "oracle", "what": name, "case": case, "detail": detail})


def write_evidence(res, violations):
    os.makedirs(EVIDENCE, exist_ok=True)
    cov = {
        "obligations": len(res.obligations),
        "discharged": len(res.discharged),
        "checker_cmd": res.checker_cmd,
        "trusted_base": res.trusted,
        "theorems": res.obligations,
        "broken": [list(b) for b in res.broken],
        "evaluations": res.evaluations,
        "distinct_nontrivial": len(res.nontrivial),
        "rule": res.extra.get(
            "rule",
            "correspondence cases = generated inputs on which the Lean model and the Python implementation are both run; "
            "oracle cases = inputs on which the property is evaluated directly on the implementation; a case counts as "
            "non-trivial unless the property module marks it trivial (e.g. empty program); distinct = distinct canonical JSON of (operation, input)",
        ),
        "samples": res.samples[:12] or [{"note": "no cases generated"}],
        "correspondence": res.corr,
        "oracles": res.oracle,
        "distribution": res.distribution,
        "known_findings_reproduced": [w for _f, w in res.known_hits],
        "notes": res.notes,
    }
    cov.update({k: v for k, v in res.extra.items() if k != "rule"})
    ev = {
        "property_id": res.pid,
        "tier": res.tier,
        "seed": res.seed,
        "level": "proof",
        "coverage": cov,
        "assumptions": res.assumptions,
        "wall_s": round(time.time() - res.t0, 2),
        "violations": violations,
    }
    with open(os.path.join(EVIDENCE, f"{res.pid}.json"), "w") as f:
        json.dump(ev, f, indent=1, default=str)


def write_replay(res, idx, payload):
    os.makedirs(REPLAYS, exist_ok=True)
    p = os.path.join(REPLAYS, f"{res.pid}-{res.seed}-{idx}.json")
    with open(p, "w") as f:
        json.dump(payload, f, indent=1, default=str)
    return os.path.relpath(p, ROOT)
