"""Canonical JSON dumps of the real jaqalpaq objects (the inputs/outputs of pass-level operations).

The format is decoded by JaqalModel/Model/IrJson.lean. Python object graphs are dumped by value.
"""
from decimal import Decimal
import math

from jaqalpaq.core.constant import Constant
from jaqalpaq.core.parameter import Parameter, AnnotatedValue, ParamType
from jaqalpaq.core.register import Register, NamedQubit
from jaqalpaq.core.gate import GateStatement
from jaqalpaq.core.block import BlockStatement, LoopStatement
from jaqalpaq.core.macro import Macro
from jaqalpaq.core.gatedef import GateDefinition, IdleGateDefinition, BusyGateDefinition, AbstractGate
from jaqalpaq.core.circuit import Circuit
from jaqalpaq.core.usepulses import UsePulsesStatement


class Undumpable(Exception):
    pass


def dec(x):
    """float -> [neg, mant, exp] (canonical decimal of repr(x)); raises for inf/nan."""
    if math.isnan(x) or math.isinf(x):
        raise Undumpable(f"non-finite float {x}")
    d = Decimal(repr(x))
    sign, digits, exp = d.as_tuple()
    digits = list(digits)
    while len(digits) > 1 and digits[-1] == 0:
        digits.pop()
        exp += 1
    mant = int("".join(map(str, digits)))
    if mant == 0:
        exp = 0
    return [bool(sign), str(mant), str(exp)]


def undec(j):
    neg, mant, exp = j
    v = float(f"{'-' if neg else ''}{mant}e{exp}")
    return v


def num(x):
    if isinstance(x, bool):
        return {"i": str(int(x))}
    if isinstance(x, int):
        return {"i": str(x)}
    if isinstance(x, float):
        return {"f": dec(x)}
    raise Undumpable(f"not a number: {x!r}")


def kind(k):
    return None if k is None or k == ParamType.NONE else k.name


def val(v):
    """Any value that can appear as a gate argument / index / size / count."""
    if v is None:
        return None
    if isinstance(v, (bool, int, float)):
        return num(v)
    if isinstance(v, Constant):
        return {"c": v.name, "v": val(v.value)}
    if isinstance(v, Parameter):
        return {"p": v.name, "k": kind(v.kind)}
    if isinstance(v, AnnotatedValue):
        return {"p": v.name, "k": kind(v.kind), "av": True}
    if isinstance(v, NamedQubit):
        return {"q": v.name, "from": val(v.alias_from), "idx": val(v.alias_index)}
    if isinstance(v, Register):
        if v.fundamental:
            return {"r": v.name, "size": val(v._size)}
        sl = v.alias_slice
        if sl is None:
            return {"r": v.name, "from": val(v.alias_from)}
        return {"r": v.name, "from": val(v.alias_from), "slice": [val(sl.start), val(sl.stop), val(sl.step)]}
    if isinstance(v, str):
        return {"s": v}
    raise Undumpable(f"cannot dump value {type(v).__name__}: {v!r}")


def gatedef(g):
    if isinstance(g, Macro):
        tag = "macro"
    elif isinstance(g, IdleGateDefinition):
        tag = "idle"
    elif isinstance(g, BusyGateDefinition):
        tag = "busy"
    elif isinstance(g, GateDefinition):
        tag = "native"
    else:
        tag = type(g).__name__
    d = {"name": g.name, "tag": tag, "params": [[p.name, kind(p.kind)] for p in g.parameters]}
    if tag in ("native", "busy", "idle"):
        d["unitary"] = getattr(g, "_ideal_unitary", None) is not None
    return d


def stmt(s):
    if isinstance(s, GateStatement):
        return {"g": s.name, "def": gatedef(s.gate_def), "args": [[k, val(v)] for k, v in s.parameters.items()]}
    if isinstance(s, LoopStatement):
        return {"l": val(s.iterations), "body": stmt(s.statements)}
    if isinstance(s, BlockStatement):
        return {"b": [stmt(x) for x in s.statements], "par": s.parallel, "sub": s.subcircuit, "it": val(s.iterations)}
    raise Undumpable(f"cannot dump statement {type(s).__name__}")


def macro(m):
    return {"m": m.name, "params": [[p.name, kind(p.kind)] for p in m.parameters], "body": stmt(m.body)}


def circuit(c):
    return {
        "usepulses": [[str(u.module), "*" if u.names is all else list(u.names)] for u in c.usepulses],
        "constants": [val(x) for x in c.constants.values()],
        "registers": [val(x) for x in c.registers.values()],
        "macros": [macro(m) for m in c.macros.values()],
        "natives": [gatedef(g) for g in c.native_gates.values()],
        "body": stmt(c.body),
        "keys": {
            "constants": list(c.constants.keys()),
            "registers": list(c.registers.keys()),
            "macros": list(c.macros.keys()),
            "natives": list(c.native_gates.keys()),
        },
    }


def sexpr(x):
    """S-expression as returned by parse_to_sexpression -> JSON for Sx.fromJson."""
    from collections import deque
    from jaqalpaq.parser.identifier import Identifier

    if isinstance(x, Identifier):
        return str(x)
    if isinstance(x, (list, tuple, deque)):
        return [sexpr(y) for y in x]
    if x is None:
        return None
    if isinstance(x, str):
        return x
    if x is all:
        return "*"
    if isinstance(x, (bool, int, float)):
        return num(x)
    raise Undumpable(f"cannot dump s-expression element {x!r}")
