"""The native gate set the harness injects (inject_pulses=…) when it runs the real emulator.

All matrices have Gaussian-dyadic entries ((a+bi)/2^k), so IEEE double arithmetic on them is exact
and state vectors can be compared exactly with the Lean model's `GD` arithmetic.
Bit k of a matrix index corresponds to the gate's k-th qubit argument (the emulator's convention).
"""
import numpy as np
from jaqalpaq.core import GateDefinition, Parameter, ParamType
from jaqalpaq.core.gatedef import BusyGateDefinition, add_idle_gates

Q = ParamType.QUBIT
F = ParamType.FLOAT
I = ParamType.INT


def _m(rows):
    return np.array(rows, dtype=complex)


def U_X():
    return _m([[0, 1], [1, 0]])


def U_Y():
    return _m([[0, -1j], [1j, 0]])


def U_Z():
    return _m([[1, 0], [0, -1]])


def U_S():
    return _m([[1, 0], [0, 1j]])


def U_SX():
    return _m([[(1 + 1j) / 2, (1 - 1j) / 2], [(1 - 1j) / 2, (1 + 1j) / 2]])


def U_P(k):
    """integer-parametrised phase diag(1, i^k)"""
    return _m([[1, 0], [0, [1, 1j, -1, -1j][int(k) % 4]]])


def perm(n, f):
    d = 2**n
    m = np.zeros((d, d), dtype=complex)
    for i in range(d):
        m[f(i), i] = 1
    return m


def U_CX():  # control = arg0 (bit0), target = arg1 (bit1)
    return perm(2, lambda i: (i & 1) | ((((i >> 1) ^ i) & 1) << 1))


def U_CZ():
    m = np.eye(4, dtype=complex)
    m[3, 3] = -1
    return m


def U_SWAP():
    return perm(2, lambda i: ((i & 1) << 1) | (i >> 1))


def U_ISWAP():
    m = np.zeros((4, 4), dtype=complex)
    m[0, 0] = 1
    m[3, 3] = 1
    m[1, 2] = 1j
    m[2, 1] = 1j
    return m


def U_HH():  # H (x) H, entries +-1/2
    h = np.array([[1, 1], [1, -1]], dtype=complex)
    return np.kron(h, h) / 2


def U_NS():  # non-symmetric 2-qubit gate: X on arg0 then CX(arg0->arg1) then S on arg1
    x0 = np.kron(np.eye(2), U_X())  # arg0 is bit0 = rightmost factor
    s1 = np.kron(U_S(), np.eye(2))
    return s1 @ U_CX() @ x0


def U_CCX():
    return perm(3, lambda i: (i & 3) | ((((i >> 2) ^ ((i & 1) & (i >> 1))) & 1) << 2))


def U_ROT3():  # 3-qubit permutation gate: cyclic shift of the three bits
    return perm(3, lambda i: ((i << 1) & 7) | (i >> 2))


def make_gates():
    G = {}

    def add(name, params, u):
        G[name] = GateDefinition(name, params, ideal_unitary=u)

    add("X", [Parameter("q", Q)], U_X)
    add("Y", [Parameter("q", Q)], U_Y)
    add("Z", [Parameter("q", Q)], U_Z)
    add("S", [Parameter("q", Q)], U_S)
    add("SX", [Parameter("q", Q)], U_SX)
    add("P", [Parameter("q", Q), Parameter("k", I)], U_P)
    add("PF", [Parameter("k", F), Parameter("q", Q)], U_P)  # classical parameter first
    add("CX", [Parameter("c", Q), Parameter("t", Q)], U_CX)
    add("CZ", [Parameter("a", Q), Parameter("b", Q)], U_CZ)
    add("SWAP", [Parameter("a", Q), Parameter("b", Q)], U_SWAP)
    add("ISWAP", [Parameter("a", Q), Parameter("b", Q)], U_ISWAP)
    add("HH", [Parameter("a", Q), Parameter("b", Q)], U_HH)
    add("NS", [Parameter("a", Q), Parameter("b", Q)], U_NS)
    add("CCX", [Parameter("a", Q), Parameter("b", Q), Parameter("c", Q)], U_CCX)
    add("ROT3", [Parameter("a", Q), Parameter("b", Q), Parameter("c", Q)], U_ROT3)
    add("N", [Parameter("q", Q)], None)  # a gate without a unitary
    G["prepare_all"] = BusyGateDefinition("prepare_all", [])
    G["measure_all"] = BusyGateDefinition("measure_all", [])
    return G


GATES = make_gates()
GATES_IDLE = add_idle_gates(GATES)

# name -> (number of qubit args, classical arg spec) in parameter order, for generators
SIG = {
    "X": "q", "Y": "q", "Z": "q", "S": "q", "SX": "q", "N": "q",
    "P": "qi", "PF": "iq",
    "CX": "qq", "CZ": "qq", "SWAP": "qq", "ISWAP": "qq", "HH": "qq", "NS": "qq",
    "CCX": "qqq", "ROT3": "qqq",
}


def gd(z):
    """complex (exactly Gaussian dyadic) -> [re, im, k] with value (re + i im)/2^k."""
    k = 0
    re, im = z.real, z.imag
    while re != int(re) or im != int(im):
        re *= 2
        im *= 2
        k += 1
        if k > 1100:
            raise ValueError("not dyadic")
    return [str(int(re)), str(int(im)), k]


def matrix_json(m):
    return [[gd(complex(x)) for x in row] for row in m]
