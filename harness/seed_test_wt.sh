#!/bin/sh
# usage: seed_test_wt.sh <scratch worktree of /repo> <dir with patch.diff demo.py> <PID> [more PIDs…]
# Like seed_test.sh, but applies the seeded change inside a scratch worktree and points the checks at it
# (JAQALPAQ_REPO + PYTHONPATH), so /repo itself is never touched and several seeds can be tried at once.
W="$1"; D="$2"; shift; shift
cd "$W" || exit 2
git diff --quiet || { echo "$W not clean"; exit 2; }
export JAQALPAQ_RUN_EMULATOR=1
echo "== clean demo:"; PYTHONPATH="$W/src" /venv/bin/python "$D/demo.py" >/dev/null 2>&1; echo "exit $?"
git apply "$D/patch.diff" || { echo "patch does not apply"; exit 2; }
echo "== patched demo:"; PYTHONPATH="$W/src" /venv/bin/python "$D/demo.py" 2>&1 | grep -v WARNING | tail -3
PYTHONPATH="$W/src" /venv/bin/python "$D/demo.py" >/dev/null 2>&1; echo "exit $?"
echo "== tests:"; PYTHONPATH="$W/src" /venv/bin/python -m pytest -q -p no:cacheprovider --deselect tests/ipc -q 2>&1 | tail -1
for P in "$@"; do
  echo "== check $P:"; (cd /verif && JAQALPAQ_REPO="$W" PYTHONPATH="$W/src" ./check "$P" 2>/dev/null | grep -v WARNING | tail -2; )
done
git checkout -- . ; git status --short | grep -v '^??' | head -3
(cd /verif && PYTHONPATH=/verif /venv/bin/python -W ignore -m harness.effects_scan --emit >/dev/null 2>&1; PYTHONPATH=/verif /venv/bin/python -W ignore -m harness.lexer_extract >/dev/null 2>&1)
