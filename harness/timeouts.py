"""Alarm budgets for calls into the real code.

A generous limit (the machine may be heavily loaded: 16 cores shared with Lean builds) so that a
slow but terminating call is never reported as a hang; once several real hangs have been seen in
this process the limit drops, so that a tree on which many inputs hang does not stall the check."""
_hangs = 0
LONG = 60
SHORT = 20
LAST = 5


def limit(scale=1):
    # after ten timeouts the tree is known to hang on many inputs: do not let the rest of the run take an hour
    return (LONG if _hangs < 3 else SHORT if _hangs < 10 else LAST) * scale


def saw_hang():
    global _hangs
    _hangs += 1
