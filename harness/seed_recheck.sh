#!/bin/sh
# usage: seed_recheck.sh <seed id> [<seed id> …]  — apply seeded/<id>/patch.diff in the scratch worktree /tmp/wt-seed, run the
# check of its property against it (one at a time), print the verdict and what the replay names, undo.
cd /tmp/wt-seed || exit 2
for S in "$@"; do
  P=${S%-*}
  git checkout -q -- .
  git apply /verif/seeded/$S/patch.diff || { echo "$S: patch does not apply"; continue; }
  OUT=$(cd /verif && JAQALPAQ_REPO=/tmp/wt-seed PYTHONPATH=/tmp/wt-seed/src ./check "$P" 2>/dev/null | grep "VIOLATION\|^OK\|INFRA" | head -2)
  echo "$S: $OUT"
  R=$(echo "$OUT" | sed -n 's/.*replay=\([^ ]*\).*/\1/p' | head -1)
  [ -n "$R" ] && (cd /verif && /venv/bin/python -c "
import json,sys
p=json.load(open('$R'))
print('   kind:',p.get('kind'),'| oracle:',p.get('oracle'),'| broken:',str(p.get('broken'))[:300],'| corr:',[ (d.get('what'),d.get('module')) for d in p.get('correspondence_disagreements',[])][:3])
" 2>/dev/null | grep -v WARNING)
  git checkout -q -- .
done
