#!/venv/bin/python
"""Effect-summary translator for property C11 (and the process-global-state table of C16).

Scans the SOURCE TEXT of the anchored jaqalpaq modules with `ast` (nothing is imported or run) and
produces

  * `scan(repo_src) -> list[Site]`     every heap-mutation site with the provenance class of its receiver;
  * `scan_globals(repo_src) -> list[GlobalSite]`   the process-global mutable state;
  * `emit_lean(sites, path, globals_=None)`  ->  /verif/lean/JaqalModel/Generated/Effects.lean
    (`def sites : List Site`, `def globals : List GlobalSite`; the structures live in Model/Heap.lean);
  * `unsafe_sites(sites)`  the sites that make the Lean obligation `C11_sites_safe` fail.

CLI:  PYTHONPATH=/verif /venv/bin/python -m harness.effects_scan [--repo-src DIR] [--emit PATH] [--show] [--check PATH]

A MUTATION SITE is: an attribute store, a subscript store, an augmented assignment to an attribute /
subscript (or to a local name that may hold a mutable object), `del x.a` / `del x[k]`, a call of a
mutating method (MUTATORS below), `setattr` / `delattr`.

The RECEIVER is the object written: `a` in `a.f = v`, `a[k] = v`, `a[k] += v`, `del a[k]`; `a.f` in
`a.f.append(v)`; `a[k]` in `a[k].add(v)`.  Its provenance class:

  fresh      created in the same function by a constructor call / literal / comprehension / copy, or a
             container OWNED by such an object: the attribute was bound by the constructor to an object
             the constructor itself created, *derived from the source of that `__init__` for the actual
             arguments of the call* (`new_circuit.body.statements` for `new_circuit = Circuit(..)` is
             fresh because `Circuit.__init__` binds `_body = BlockStatement()` and `BlockStatement.__init__`
             binds `_statements = []` when no `statements` argument is passed; `new_circuit.native_gates`
             is NOT fresh: the constructor stores its argument);
  self_init  store to the object under construction in `__init__` / `__new__`;
  own_state  bookkeeping of a helper object (Visitor / Builder / Parser / Lexer / walker / backend / job):
             `self.x = ..`, or a write through `self.x...` where every binding of `x` in the class family
             is an object the helper created itself (`self.address`, `self.subcircuits`, `self.current`);
             a helper that stores an input object in `self.x` and later writes through it is `param`;
  self_ir    write to / through `self` in an IR or result class outside `__init__` (lazy caches ...);
  param      the root is a parameter (or something obtained from a parameter);
  global     the root is a module-level or class-level object;
  unknown    anything else (result of an unanalysed call, element of a container, ...).

`fresh`, `self_init`, `own_state` are safe by class.  Every other site must be listed in
effects_justified.json (keyed by module, function, rendering - not by line) with the argument why the
receiver is not reachable from an input circuit.  The analysis is flow-insensitive (a name's provenance
is the join over all its bindings in the function), syntactic and *trusted*; it is cross-checked
dynamically by harness/agents/heap_history.py.  Known limits, stated: aliasing through containers and
through calls is not tracked (a call result is `unknown`), `a[k] op= v` is attributed to the container
`a` (an in-place operator of a mutable element is not), and mutation by C code is invisible.
"""
import argparse
import ast
import json
import os
import re
import sys
from dataclasses import dataclass, field, asdict

DEFAULT_SRC = os.path.join(os.environ.get("JAQALPAQ_REPO", "/repo"), "src", "jaqalpaq")
HERE = os.path.dirname(os.path.abspath(__file__))
JUSTIFIED_PATH = os.path.join(HERE, "effects_justified.json")
LEAN_OUT = os.path.join(os.path.dirname(HERE), "lean", "JaqalModel", "Generated", "Effects.lean")

MODULES = [
    "core/algorithm/expand_macros.py", "core/algorithm/fill_in_let.py", "core/algorithm/fill_in_map.py",
    "core/algorithm/expand_subcircuits.py", "core/algorithm/unit_timing.py",
    "core/algorithm/used_qubit_visitor.py", "core/algorithm/walkers.py", "core/algorithm/visitor.py",
    "core/circuit.py", "core/block.py", "core/gate.py", "core/gatedef.py", "core/macro.py", "core/register.py",
    "core/constant.py", "core/parameter.py", "core/circuitbuilder.py", "core/result.py", "core/usepulses.py",
    "core/stretch.py", "generator/generator.py", "emulator/unitary.py", "emulator/backend.py", "run/run.py",
    "parser/parser.py", "parser/slyparse.py",
]
# scanned for process-global state only (C16); their heap sites are not part of the C11 table
GLOBAL_ONLY_MODULES = ["_import.py", "core/branch.py", "core/identifier.py", "utilities.py", "error.py"]

# classes of these modules are IR / result classes unless they derive from Visitor
IR_MODULES = {
    "core/circuit.py", "core/block.py", "core/gate.py", "core/gatedef.py", "core/macro.py", "core/register.py",
    "core/constant.py", "core/parameter.py", "core/result.py", "core/usepulses.py", "core/branch.py",
    "core/identifier.py",
}
HELPER_NAME = re.compile(r"(Visitor|Builder|Memoizer|Parser|Lexer|Backend|Job|Emulator|Walker|Iterator|"
                         r"Interface|SExpression|Expander|Filler|Replacer|Normalizer|Serializer)$")

MUTATORS = {
    "append", "extend", "insert", "pop", "remove", "clear", "update", "setdefault", "popitem", "sort",
    "reverse", "add", "discard", "appendleft", "extendleft", "popleft", "__setitem__", "__delitem__",
    "__setattr__", "__delattr__", "difference_update", "intersection_update", "symmetric_difference_update",
    "move_to_end", "fill", "resize", "put", "itemset",
}

SAFE_CLASSES = ("fresh", "self_init", "own_state")
ALL_CLASSES = ("fresh", "self_init", "own_state", "self_ir", "param", "global", "unknown")

# ----------------------------------------------------------------------------------------------
# provenance lattice

RANK = {"scalar": 0, "fresh": 1, "own_state": 2, "self_ir": 3, "global": 4, "param": 5, "unknown": 6}


class Prov:
    """kind + (for objects created by a scanned constructor) the provenance of their attributes."""
    __slots__ = ("kind", "ctor", "attrs", "tag")

    def __init__(self, kind, ctor=None, attrs=None, tag=None):
        self.kind, self.ctor, self.attrs, self.tag = kind, ctor, attrs, tag

    def key(self):
        a = None if self.attrs is None else tuple(sorted((k, v.key()) for k, v in self.attrs.items()))
        return (self.kind, self.ctor, a, self.tag)

    def __eq__(self, o):
        return isinstance(o, Prov) and self.key() == o.key()

    def __hash__(self):
        return hash(self.key())

    def __repr__(self):
        return self.kind + (f":{self.ctor}" if self.ctor else "") + (f"[{self.tag}]" if self.tag else "")

    def with_kind(self, kind):
        return Prov(kind, self.ctor, self.attrs, self.tag)


SCALAR, FRESH, OWN, SELF_IR, GLOBAL, PARAM, UNKNOWN = (Prov(k) for k in
                                                       ("scalar", "fresh", "own_state", "self_ir", "global", "param", "unknown"))
SELF = Prov("self")  # the expression `self` itself (never stored in an env as a receiver class)


def rank(p):
    return RANK.get(p.kind, 6)


def join(a, b):
    if a is None:
        return b
    if b is None:
        return a
    if a.kind == "self" or b.kind == "self":
        return a if a.kind == b.kind else UNKNOWN
    if a == b:
        return a
    if a.kind == b.kind:
        if a.ctor == b.ctor and a.attrs is not None and b.attrs is not None:
            keys = set(a.attrs) | set(b.attrs)
            return Prov(a.kind, a.ctor, {k: join(a.attrs.get(k, UNKNOWN), b.attrs.get(k, UNKNOWN)) for k in keys},
                        a.tag if a.tag == b.tag else None)
        return Prov(a.kind, None, None, a.tag if a.tag == b.tag else None)
    hi = a if rank(a) >= rank(b) else b
    if a.kind == "scalar":
        return b
    if b.kind == "scalar":
        return a
    return Prov(hi.kind)


def elem(p):
    """provenance of an element / unknown attribute / method result of an object of provenance p"""
    if p.kind == "scalar":
        return SCALAR
    if p.kind in ("fresh", "own_state"):
        if p.tag == "ndarray":
            return SCALAR
        if p.tag == "default_fresh":
            return Prov(p.kind)
        if p.tag == "star":
            return PARAM
        return UNKNOWN
    if p.kind == "self":
        return UNKNOWN
    return Prov(p.kind)


# ----------------------------------------------------------------------------------------------
# program tables

@dataclass
class ClassInfo:
    name: str
    module: str
    node: ast.ClassDef
    bases: list
    methods: dict = field(default_factory=dict)
    class_assigns: dict = field(default_factory=dict)   # name -> value expr
    helper: bool = False


@dataclass(frozen=True)
class Site:
    module: str
    func: str
    line: int
    kind: str
    render: str
    root: str
    cls: str
    justified: bool = False
    why: str = ""


@dataclass(frozen=True)
class GlobalSite:
    module: str
    func: str
    line: int
    kind: str
    render: str


class Program:
    def __init__(self, repo_src, modules):
        self.repo_src = repo_src
        self.trees = {}
        self.classes = {}
        self.dup_classes = set()
        self.module_names = {}     # module -> set of module-level names (assigned / imported / def'd)
        self.module_funcs = {}     # module -> {name: FunctionDef}
        for m in modules:
            path = os.path.join(repo_src, m)
            if not os.path.exists(path):
                continue
            with open(path, encoding="utf-8") as f:
                tree = ast.parse(f.read(), filename=path)
            self.trees[m] = tree
            names, funcs = set(), {}
            for node in tree.body:
                if isinstance(node, (ast.FunctionDef, ast.AsyncFunctionDef)):
                    names.add(node.name)
                    funcs[node.name] = node
                elif isinstance(node, ast.ClassDef):
                    names.add(node.name)
                    ci = ClassInfo(node.name, m, node, [ast.unparse(b).split(".")[-1] for b in node.bases])
                    for st in node.body:
                        if isinstance(st, (ast.FunctionDef, ast.AsyncFunctionDef)):
                            ci.methods[st.name] = st
                        elif isinstance(st, ast.Assign):
                            for t in st.targets:
                                if isinstance(t, ast.Name):
                                    ci.class_assigns[t.id] = st.value
                        elif isinstance(st, ast.AnnAssign) and isinstance(st.target, ast.Name) and st.value:
                            ci.class_assigns[st.target.id] = st.value
                    if node.name in self.classes:
                        self.dup_classes.add(node.name)
                    self.classes[node.name] = ci
                elif isinstance(node, (ast.Import, ast.ImportFrom)):
                    for a in node.names:
                        names.add((a.asname or a.name).split(".")[0])
                else:
                    for t in ast.walk(node):
                        if isinstance(t, ast.Name) and isinstance(t.ctx, ast.Store):
                            names.add(t.id)
                        elif isinstance(t, (ast.Import, ast.ImportFrom)):
                            for a in t.names:
                                names.add((a.asname or a.name).split(".")[0])
            self.module_names[m] = names
            self.module_funcs[m] = funcs
        for ci in self.classes.values():
            ci.helper = self._is_helper(ci)
        self.attr_table = {}   # (family id, attr) -> Prov
        self._family = {}
        self._build_families()
        self._ctor_cache = {}
        self._ctor_stack = []

    # -- class hierarchy ------------------------------------------------------------------
    def mro(self, name, seen=None):
        """linearised bases by NAME within the scanned modules (approximation of the MRO)"""
        seen = seen if seen is not None else []
        if name in seen or name not in self.classes:
            return seen
        seen.append(name)
        for b in self.classes[name].bases:
            self.mro(b, seen)
        return seen

    def _is_helper(self, ci):
        chain = self.mro(ci.name, [])
        if "Visitor" in chain and ci.name != "Visitor" or ci.name == "Visitor":
            return True
        if any(b in ("Lexer", "Parser", "Exception", "JaqalError") for c in chain for b in self.classes[c].bases):
            return True
        if ci.module in IR_MODULES:
            return False
        return bool(HELPER_NAME.search(ci.name))

    def _build_families(self):
        """related(C) = C's bases (by name, transitively) and C's subclasses: the classes whose methods can
        run with a C instance as `self` or bind attributes a C method reads."""
        for n in self.classes:
            rel = set(self.mro(n, []))
            for d in self.classes:
                if n in self.mro(d, []):
                    rel.add(d)
            self._family[n] = sorted(rel)

    def related(self, name):
        return self._family.get(name, [name])

    def find_method(self, clsname, meth):
        for c in self.mro(clsname, []):
            if meth in self.classes[c].methods:
                return c, self.classes[c].methods[meth]
        return None, None

    def property_target(self, clsname, attr):
        """`attr` is a property whose getter is `return self.Y` -> 'Y'"""
        c, fn = self.find_method(clsname, attr)
        if fn is None:
            return None
        if not any(ast.unparse(d) in ("property", "functools.cached_property", "cached_property")
                   for d in fn.decorator_list):
            return None
        body = [s for s in fn.body if not (isinstance(s, ast.Expr) and isinstance(s.value, ast.Constant))]
        if len(body) == 1 and isinstance(body[0], ast.Return) and isinstance(body[0].value, ast.Attribute) \
                and isinstance(body[0].value.value, ast.Name) and body[0].value.value.id == "self":
            return body[0].value.attr
        return None

    def is_method(self, clsname, attr):
        return self.find_method(clsname, attr)[1] is not None

    # -- attribute table of `self.X` (join over every binding in the class family) ----------
    def self_attr(self, clsname, attr, depth=0):
        if clsname is None:
            return UNKNOWN
        tgt = self.property_target(clsname, attr)
        if tgt is not None and depth < 4:
            return self.self_attr(clsname, tgt, depth + 1)
        got = None
        for f in self.related(clsname):
            p = self.attr_table.get((f, attr))
            if p is not None:
                got = join(got, p)
            if self.attr_table.get((f, "*dynamic*")) is not None:
                got = join(got, PARAM)
        if got is not None:
            return got
        if self.is_method(clsname, attr):
            return SCALAR
        return UNKNOWN

    # -- constructor summaries --------------------------------------------------------------
    def ctor_summary(self, clsname, call, caller):
        """Prov of `clsname(args…)`: fresh, with the provenance of the attributes its __init__ binds,
        evaluated for the actual arguments of this call."""
        if clsname not in self.classes or clsname in self.dup_classes:
            return Prov("fresh", clsname)
        owner, init = self.find_method(clsname, "__init__")
        if init is None:
            return Prov("fresh", clsname, {})
        bind = bind_arguments(init, call, caller, skip_self=True)
        return Prov("fresh", clsname, self.init_attrs(clsname, owner, init, bind))

    def init_attrs(self, clsname, owner, init, bind):
        key = (clsname, owner, tuple(sorted((k, v.key()) for k, v in bind.items())))
        if key in self._ctor_cache:
            return self._ctor_cache[key]
        if len(self._ctor_stack) > 6 or (clsname, owner) in self._ctor_stack:
            return None
        self._ctor_stack.append((clsname, owner))
        try:
            fa = FnAnalysis(self, self.classes[owner].module, self.classes[owner], init, init.name,
                            param_bind=bind, ctor_of=clsname)
            fa.solve()
            attrs = dict(fa.self_binds)
            attrs = {k: v for k, v in attrs.items()}
            if fa.dynamic_self:
                attrs = None
        finally:
            self._ctor_stack.pop()
        self._ctor_cache[key] = attrs
        return attrs

    def object_attr(self, p, attr, depth=0):
        """attribute `attr` of an object of provenance p"""
        if p.kind == "scalar":
            return SCALAR
        if p.kind in ("fresh", "own_state"):
            if p.attrs is not None and p.ctor in self.classes:
                if attr in p.attrs:
                    v = p.attrs[attr]
                    return v.with_kind("own_state") if (p.kind == "own_state" and v.kind == "fresh") else v
                tgt = self.property_target(p.ctor, attr)
                if tgt is not None and depth < 4:
                    return self.object_attr(p, tgt, depth + 1)
                if self.is_method(p.ctor, attr):
                    return SCALAR
                if attr in self._class_level(p.ctor):
                    return GLOBAL
            if p.tag == "ndarray" and attr in ("shape", "size", "ndim", "dtype"):
                return SCALAR
            return UNKNOWN
        return Prov(p.kind)

    def _class_level(self, clsname):
        out = set()
        for c in self.mro(clsname, []):
            out |= set(self.classes[c].class_assigns)
        return out


def bind_arguments(fn, call, caller, skip_self):
    """map the parameters of `fn` to the provenance of the actual arguments of `call` (evaluated in the
    caller's analysis); parameters not passed get the provenance of their default."""
    a = fn.args
    pos = [x.arg for x in a.posonlyargs + a.args]
    if skip_self and pos:
        pos = pos[1:]
    defaults = {}
    all_pos = [x.arg for x in a.posonlyargs + a.args]
    for name, d in zip(all_pos[len(all_pos) - len(a.defaults):], a.defaults):
        defaults[name] = d
    for x, d in zip(a.kwonlyargs, a.kw_defaults):
        if d is not None:
            defaults[x.arg] = d
    bind = {}
    starred = False
    extra = None
    for i, arg in enumerate(call.args):
        if isinstance(arg, ast.Starred):
            starred = True
            extra = join(extra, elem(caller.expr(arg.value)))
            continue
        if i < len(pos) and not starred:
            bind[pos[i]] = caller.expr(arg)
        else:
            extra = join(extra, caller.expr(arg))
    kwextra = None
    names = set(pos) | {x.arg for x in a.kwonlyargs}
    for kw in call.keywords:
        if kw.arg is None:
            starred = True
            kwextra = join(kwextra, elem(caller.expr(kw.value)))
        elif kw.arg in names:
            bind[kw.arg] = caller.expr(kw.value)
        else:
            kwextra = join(kwextra, caller.expr(kw.value))
    for name in names:
        if name not in bind:
            if starred:
                # could have been supplied through *args / **kwargs
                bind[name] = join(join(extra, kwextra), UNKNOWN)
            elif name in defaults:
                d = defaults[name]
                bind[name] = SCALAR if isinstance(d, ast.Constant) else UNKNOWN
            else:
                bind[name] = UNKNOWN
    if a.vararg:
        bind[a.vararg.arg] = Prov("fresh", tag=None) if extra is None else UNKNOWN
        bind["*elem:" + a.vararg.arg] = extra if extra is not None else SCALAR
    if a.kwarg:
        bind[a.kwarg.arg] = Prov("fresh") if kwextra is None else UNKNOWN
        bind["*elem:" + a.kwarg.arg] = kwextra if kwextra is not None else SCALAR
    return bind


FRESH_CALLS = {"list", "dict", "set", "tuple", "frozenset", "OrderedDict", "defaultdict", "deque", "sorted",
               "iter", "enumerate", "zip", "zip_longest", "filter", "map", "range", "reversed", "slice",
               "chain", "bytearray", "object", "super", "open", "copy", "deepcopy", "from_iterable"}
SCALAR_CALLS = {"str", "int", "float", "bool", "complex", "len", "repr", "hash", "isinstance", "issubclass",
                "hasattr", "abs", "round", "ord", "chr", "format", "id", "type", "callable", "any", "all",
                "sum", "divmod", "pow", "bytes", "print", "join", "startswith", "endswith", "split",
                "strip", "lstrip", "rstrip", "lower", "upper", "zfill", "index", "count", "find", "replace",
                "is_integer", "hex", "bin", "isnan", "isinf", "isfinite", "floor", "ceil", "sqrt", "log2",
                "is_identifier_valid", "as_integer"}
NUMPY_FRESH = {"zeros", "empty", "ones", "eye", "identity", "array", "clip", "abs", "diag", "kron", "copy",
               "zeros_like", "empty_like", "full", "arange", "linspace", "exp", "cos", "sin", "conj"}


class FnAnalysis:
    """flow-insensitive provenance of the local names of one function + its mutation sites"""

    def __init__(self, prog, module, clsinfo, fn, qualname, param_bind=None, parent=None, ctor_of=None):
        self.prog, self.module, self.cls, self.fn, self.qualname = prog, module, clsinfo, fn, qualname
        self.parent = parent
        self.param_bind = param_bind
        self.ctor_of = ctor_of
        a = fn.args
        self.params = [x.arg for x in a.posonlyargs + a.args + a.kwonlyargs]
        self.star_params = set()
        if a.vararg:
            self.params.append(a.vararg.arg)
            self.star_params.add(a.vararg.arg)
        if a.kwarg:
            self.params.append(a.kwarg.arg)
            self.star_params.add(a.kwarg.arg)
        deco = {ast.unparse(d) for d in fn.decorator_list}
        self.self_name = None
        self.cls_name = None
        if clsinfo is not None and parent is None and "staticmethod" not in deco and self.params:
            if "classmethod" in deco:
                self.cls_name = self.params[0]
            else:
                self.self_name = self.params[0]
        self.is_init = fn.name in ("__init__", "__new__", "__init_subclass__") and self.self_name is not None
        self.env = {}
        self.self_binds = {}     # attr -> Prov of every `self.attr = e` in this function
        self.dynamic_self = False
        self.globals_declared = set()
        self.nested = []
        self.changed = False
        self._collect_scopes()

    # -- scopes ---------------------------------------------------------------------------
    def _collect_scopes(self):
        self.body_nodes = []     # every node of this function excluding nested function bodies
        stack = list(self.fn.body)
        while stack:
            n = stack.pop()
            if isinstance(n, (ast.FunctionDef, ast.AsyncFunctionDef)):
                self.nested.append(n)
                self.body_nodes.append(n)
                continue
            if isinstance(n, ast.Lambda):
                self.body_nodes.append(n)
                stack.extend(ast.iter_child_nodes(n))
                continue
            if isinstance(n, ast.ClassDef):
                continue
            self.body_nodes.append(n)
            stack.extend(ast.iter_child_nodes(n))
        self.body_nodes.sort(key=lambda n: (getattr(n, "lineno", 0), getattr(n, "col_offset", 0)))
        for n in self.body_nodes:
            if isinstance(n, ast.Global):
                self.globals_declared |= set(n.names)

    # -- expression provenance --------------------------------------------------------------
    def name(self, ident):
        if ident == self.self_name:
            return SELF
        if ident == self.cls_name:
            return GLOBAL
        if ident in self.globals_declared:
            return GLOBAL
        if ident in self.env:
            return self.env[ident]
        if ident in self.params:
            if self.param_bind is not None:
                return self.param_bind.get(ident, UNKNOWN)
            if ident in self.star_params:
                # the tuple / dict the call protocol builds for *args / **kwargs (its elements are the caller's)
                return Prov("fresh", None, None, "star")
            return PARAM
        if self.parent is not None:
            return self.parent.name(ident)
        if ident in self.prog.module_names.get(self.module, ()):
            return GLOBAL
        if ident in ("True", "False", "None", "NotImplemented", "Ellipsis"):
            return SCALAR
        if ident in __builtins__ if isinstance(__builtins__, dict) else hasattr(__builtins__, ident):
            return GLOBAL
        return UNKNOWN

    def self_attr(self, attr):
        """provenance of the value of `self.attr`"""
        if self.is_init and attr in self.self_binds and self.param_bind is not None:
            return self.self_binds[attr]
        p = self.prog.self_attr(self.cls.name if self.ctor_of is None else self.ctor_of, attr)
        if self.is_init and attr in self.self_binds:
            p = join(p, self.self_binds[attr]) if p.kind != "unknown" else self.self_binds[attr]
        if self.cls.helper:
            if p.kind == "fresh":
                return p.with_kind("own_state")
            return p
        # IR / result class: whatever hangs off `self` belongs to the object (at least self_ir)
        if self.is_init:
            return p
        if rank(p) <= RANK["self_ir"]:
            return p if p.kind == "scalar" else Prov("self_ir")
        return p

    def expr(self, e):
        if e is None:
            return SCALAR
        if isinstance(e, ast.Constant) or isinstance(e, (ast.JoinedStr, ast.Compare, ast.FormattedValue)):
            return SCALAR
        if isinstance(e, ast.UnaryOp):
            return SCALAR if isinstance(e.op, ast.Not) else join(SCALAR, self._arith(self.expr(e.operand)))
        if isinstance(e, ast.BinOp):
            l, r = self.expr(e.left), self.expr(e.right)
            return SCALAR if (l.kind == "scalar" and r.kind == "scalar") else Prov("fresh")
        if isinstance(e, ast.BoolOp):
            out = None
            for v in e.values:
                out = join(out, self.expr(v))
            return out
        if isinstance(e, ast.IfExp):
            return join(self.expr(e.body), self.expr(e.orelse))
        if isinstance(e, (ast.List, ast.Set, ast.Dict, ast.ListComp, ast.SetComp, ast.DictComp, ast.GeneratorExp)):
            return Prov("fresh")
        if isinstance(e, ast.Tuple):
            return Prov("fresh")
        if isinstance(e, ast.Lambda):
            return Prov("fresh")
        if isinstance(e, ast.Starred):
            return self.expr(e.value)
        if isinstance(e, ast.NamedExpr):
            return self.expr(e.value)
        if isinstance(e, ast.Name):
            return self.name(e.id)
        if isinstance(e, ast.Attribute):
            base = self.expr(e.value)
            if base.kind == "self":
                return self.self_attr(e.attr)
            return self.prog.object_attr(base, e.attr)
        if isinstance(e, ast.Subscript):
            base = self.expr(e.value)
            if isinstance(e.slice, ast.Slice):
                if base.tag == "ndarray":
                    return base          # a view
                if base.kind in ("scalar",):
                    return SCALAR
                return Prov("fresh")     # slicing a list / tuple / str copies
            if base.kind == "self":
                return UNKNOWN
            return elem(base)
        if isinstance(e, ast.Call):
            return self.call(e)
        if isinstance(e, (ast.Yield, ast.YieldFrom, ast.Await)):
            return UNKNOWN
        return UNKNOWN

    @staticmethod
    def _arith(p):
        return SCALAR if p.kind == "scalar" else Prov("fresh")

    def call(self, e):
        f = e.func
        if isinstance(f, ast.Name):
            n = f.id
            if n in self.prog.classes and n not in self.env and n not in self.params:
                return self.prog.ctor_summary(n, e, self)
            if n == "defaultdict":
                fac = e.args[0] if e.args else None
                if isinstance(fac, ast.Name) and fac.id in ("set", "list", "dict", "int", "float"):
                    return Prov("fresh", "defaultdict", None, "default_fresh")
                return Prov("fresh", "defaultdict")
            if n in SCALAR_CALLS:
                return SCALAR
            if n in FRESH_CALLS:
                return Prov("fresh", n if n in ("list", "dict", "set") else None)
            if n in ("max", "min"):
                out = None
                for a in e.args:
                    out = join(out, self.expr(a))
                return out or UNKNOWN
            if n == "next" and e.args:
                return elem(self.expr(e.args[0]))
            if n == "getattr" and e.args:
                b = self.expr(e.args[0])
                return UNKNOWN if b.kind == "self" else elem(b)
            if n[:1].isupper() and n not in self.env and n not in self.params:
                return Prov("fresh", n)     # constructor of a class outside the scanned modules
            return UNKNOWN
        if isinstance(f, ast.Attribute):
            m = f.attr
            if isinstance(f.value, ast.Name) and f.value.id in ("numpy", "np"):
                if m in NUMPY_FRESH:
                    return Prov("fresh", "ndarray", None, "ndarray")
                if m == "asarray" and e.args:
                    return join(self.expr(e.args[0]), Prov("fresh", "ndarray", None, "ndarray"))
                return UNKNOWN
            if m in ("copy", "__new__", "__copy__", "__deepcopy__", "deepcopy"):
                return Prov("fresh")
            if m in SCALAR_CALLS:
                return SCALAR
            if m in ("sum", "max", "min", "mean", "all", "any") and self.expr(f.value).tag == "ndarray":
                return SCALAR
            if m in ("values", "items", "keys"):
                return Prov("fresh", None, None, None) if False else self._view(self.expr(f.value))
            if m in ("get", "pop", "popitem", "setdefault", "popleft"):
                b = self.expr(f.value)
                return UNKNOWN if b.kind == "self" else elem(b)
            if m[:1].isupper():
                return Prov("fresh", m)
            if m in FRESH_CALLS:
                return Prov("fresh")
            return UNKNOWN
        return UNKNOWN

    def _view(self, base):
        # a dict view: itself a new object, its elements are the container's
        if base.kind == "self":
            return UNKNOWN
        if base.kind in ("scalar",):
            return SCALAR
        return Prov(base.kind if base.kind not in ("fresh", "own_state") else "unknown") \
            if base.tag != "default_fresh" else base

    # -- bindings ---------------------------------------------------------------------------
    def bind(self, target, prov, value_node=None):
        if isinstance(target, ast.Name):
            if target.id in self.globals_declared:
                return
            old = self.env.get(target.id)
            new = join(old, prov)
            if old is None or new != old:
                self.env[target.id] = new
                self.changed = True
        elif isinstance(target, (ast.Tuple, ast.List)):
            if isinstance(value_node, (ast.Tuple, ast.List)) and len(value_node.elts) == len(target.elts) \
                    and not any(isinstance(x, ast.Starred) for x in list(value_node.elts) + list(target.elts)):
                for t, v in zip(target.elts, value_node.elts):
                    self.bind(t, self.expr(v), v)
            else:
                for t in target.elts:
                    self.bind(t.value if isinstance(t, ast.Starred) else t,
                              Prov("fresh") if isinstance(t, ast.Starred) and prov.kind in ("fresh", "scalar") else elem(prov))
        elif isinstance(target, ast.Attribute):
            if isinstance(target.value, ast.Name) and target.value.id == self.self_name and self.self_name:
                old = self.self_binds.get(target.attr)
                new = join(old, prov)
                if old is None or new != old:
                    self.self_binds[target.attr] = new
                    self.changed = True
        elif isinstance(target, ast.Starred):
            self.bind(target.value, prov)

    def iter_elem(self, it):
        """provenance of the loop variable(s) of `for … in it` as a pseudo value node + prov"""
        if isinstance(it, ast.Call):
            fn = it.func
            nm = fn.id if isinstance(fn, ast.Name) else (fn.attr if isinstance(fn, ast.Attribute) else "")
            if nm == "range":
                return SCALAR, None
            if nm == "enumerate" and it.args:
                return None, [SCALAR, elem(self.expr(it.args[0]))]
            if nm in ("zip", "zip_longest"):
                return None, [elem(self.expr(a)) for a in it.args]
            if nm == "items" and isinstance(fn, ast.Attribute):
                b = self.expr(fn.value)
                e_ = UNKNOWN if b.kind == "self" else elem(b)
                return None, [e_, e_]
            if nm in ("values", "keys") and isinstance(fn, ast.Attribute):
                b = self.expr(fn.value)
                return (UNKNOWN if b.kind == "self" else elem(b)), None
        p = self.expr(it)
        return (UNKNOWN if p.kind == "self" else elem(p)), None

    def bind_loop(self, target, it):
        single, parts = self.iter_elem(it)
        if parts is not None and isinstance(target, (ast.Tuple, ast.List)) and len(parts) == len(target.elts):
            for t, p in zip(target.elts, parts):
                if isinstance(t, (ast.Tuple, ast.List)):
                    for tt in t.elts:
                        self.bind(tt, elem(p) if p.kind != "scalar" else SCALAR)
                else:
                    self.bind(t, p)
            return
        if parts is not None:
            single = None
            for p in parts:
                single = join(single, p)
            single = Prov("fresh") if rank(single) <= 1 else single
        if isinstance(target, (ast.Tuple, ast.List)):
            for t in target.elts:
                self.bind(t, elem(single) if single.kind not in ("scalar",) else SCALAR)
        else:
            self.bind(target, single)

    def one_pass(self):
        for n in self.body_nodes:
            if isinstance(n, ast.Assign):
                p = self.expr(n.value)
                for t in n.targets:
                    self.bind(t, p, n.value)
            elif isinstance(n, ast.AnnAssign) and n.value is not None:
                self.bind(n.target, self.expr(n.value), n.value)
            elif isinstance(n, ast.AugAssign) and isinstance(n.target, ast.Name):
                cur = self.name(n.target.id)
                v = self.expr(n.value)
                res = SCALAR if (cur.kind == "scalar" and v.kind == "scalar") else Prov("fresh")
                self.bind(n.target, res)
            elif isinstance(n, (ast.For, ast.AsyncFor)):
                self.bind_loop(n.target, n.iter)
            elif isinstance(n, ast.comprehension):
                self.bind_loop(n.target, n.iter)
            elif isinstance(n, (ast.With, ast.AsyncWith)):
                for item in n.items:
                    if item.optional_vars is not None:
                        self.bind(item.optional_vars, UNKNOWN)
            elif isinstance(n, ast.ExceptHandler) and n.name:
                self.bind(ast.Name(id=n.name, ctx=ast.Store()), Prov("fresh"))
            elif isinstance(n, ast.NamedExpr):
                self.bind(n.target, self.expr(n.value))
            elif isinstance(n, (ast.FunctionDef, ast.AsyncFunctionDef)):
                self.bind(ast.Name(id=n.name, ctx=ast.Store()), Prov("fresh"))
            elif isinstance(n, (ast.Import, ast.ImportFrom)):
                for a in n.names:
                    self.bind(ast.Name(id=(a.asname or a.name).split(".")[0], ctx=ast.Store()), GLOBAL)
            elif isinstance(n, ast.Call) and isinstance(n.func, ast.Name) and n.func.id == "setattr" and n.args:
                if isinstance(n.args[0], ast.Name) and n.args[0].id == self.self_name:
                    if not (len(n.args) > 1 and isinstance(n.args[1], ast.Constant)):
                        if not self.dynamic_self:
                            self.dynamic_self = True
                            self.changed = True
                    else:
                        self.bind(ast.Attribute(value=n.args[0], attr=n.args[1].value, ctx=ast.Store()),
                                  self.expr(n.args[2]) if len(n.args) > 2 else UNKNOWN)
            elif isinstance(n, ast.Call) and self.is_init and self.param_bind is not None:
                self._super_init(n)

    def _super_init(self, call):
        """`super().__init__(…)` inside a constructor summary: add the attributes the base binds"""
        f = call.func
        if not (isinstance(f, ast.Attribute) and f.attr == "__init__" and isinstance(f.value, ast.Call)
                and isinstance(f.value.func, ast.Name) and f.value.func.id == "super"):
            return
        chain = self.prog.mro(self.ctor_of or self.cls.name, [])
        if any(len([b for b in self.prog.classes[c].bases if b in self.prog.classes]) > 1 for c in chain):
            self.dynamic_self = True     # multiple inheritance: give up on the attribute map
            return
        here = self.cls.name
        if here not in chain:
            return
        rest = chain[chain.index(here) + 1:]
        for c in rest:
            if "__init__" in self.prog.classes[c].methods:
                init = self.prog.classes[c].methods["__init__"]
                bind = bind_arguments(init, call, self, skip_self=True)
                attrs = self.prog.init_attrs(self.ctor_of or self.cls.name, c, init, bind)
                if attrs is None:
                    self.dynamic_self = True
                else:
                    for k, v in attrs.items():
                        old = self.self_binds.get(k)
                        new = join(old, v)
                        if old is None or new != old:
                            self.self_binds[k] = new
                            self.changed = True
                return

    def solve(self):
        for _ in range(8):
            self.changed = False
            self.one_pass()
            if not self.changed:
                break

    # -- sites --------------------------------------------------------------------------------
    def receiver_class(self, recv):
        """(root name, class) of a receiver expression"""
        root = recv
        while isinstance(root, (ast.Attribute, ast.Subscript, ast.Starred)):
            root = root.value
        if isinstance(root, ast.Call):
            rootname = ast.unparse(root.func) + "()"
        elif isinstance(root, ast.Name):
            rootname = root.id
        else:
            rootname = ast.unparse(root)
        p = self.expr(recv)
        if p.kind == "self":
            if self.is_init:
                return rootname, "self_init"
            return rootname, ("own_state" if self.cls.helper else "self_ir")
        through_self = isinstance(root, ast.Name) and root.id == self.self_name and self.self_name is not None
        if through_self:
            if self.is_init:
                return rootname, ("self_init" if rank(p) <= RANK["own_state"] else p.kind)
            if self.cls.helper:
                return rootname, ("own_state" if rank(p) <= RANK["own_state"] else p.kind)
            return rootname, ("self_ir" if rank(p) <= RANK["self_ir"] else p.kind)
        k = p.kind
        if k == "scalar":
            k = "fresh"
        return rootname, k

    def sites(self):
        out = []

        def add(node, kind, recv, render=None):
            root, cls = self.receiver_class(recv)
            text = render if render is not None else ast.unparse(node)
            text = " ".join(text.split())
            if len(text) > 110:
                text = text[:107] + "..."
            out.append(Site(self.module, self.qualname, node.lineno, kind, text, root, cls))

        def target(t, node):
            if isinstance(t, ast.Attribute):
                add(node, "store_attr", t.value, self._render_store(node, t))
            elif isinstance(t, ast.Subscript):
                add(node, "store_item", t.value, self._render_store(node, t))
            elif isinstance(t, (ast.Tuple, ast.List)):
                for x in t.elts:
                    target(x, node)
            elif isinstance(t, ast.Starred):
                target(t.value, node)

        for n in self.body_nodes:
            if isinstance(n, ast.Assign):
                for t in n.targets:
                    target(t, n)
            elif isinstance(n, ast.AnnAssign) and n.value is not None:
                target(n.target, n)
            elif isinstance(n, ast.AugAssign):
                if isinstance(n.target, ast.Attribute):
                    add(n, "aug_attr", n.target.value)
                elif isinstance(n.target, ast.Subscript):
                    add(n, "aug_item", n.target.value)
                elif isinstance(n.target, ast.Name):
                    if n.target.id in self.globals_declared:
                        continue
                    # `x op= v` on a local name either rebinds it or updates the object in place; only worth
                    # a row when that object may be somebody else's
                    if self.name(n.target.id).kind not in ("scalar", "fresh"):
                        add(n, "aug_name", n.target)
            elif isinstance(n, ast.Delete):
                for t in n.targets:
                    if isinstance(t, ast.Attribute):
                        add(n, "del_attr", t.value, "del " + ast.unparse(t))
                    elif isinstance(t, ast.Subscript):
                        add(n, "del_item", t.value, "del " + ast.unparse(t))
            elif isinstance(n, (ast.For, ast.AsyncFor)):
                target(n.target, n) if not isinstance(n.target, ast.Name) else None
            elif isinstance(n, (ast.With, ast.AsyncWith)):
                for item in n.items:
                    if item.optional_vars is not None and not isinstance(item.optional_vars, ast.Name):
                        target(item.optional_vars, n)
            elif isinstance(n, ast.Call):
                f = n.func
                if isinstance(f, ast.Attribute) and f.attr in MUTATORS:
                    add(n, "call." + f.attr, f.value)
                elif isinstance(f, ast.Name) and f.id in ("setattr", "delattr") and n.args:
                    add(n, f.id, n.args[0])
        return out

    @staticmethod
    def _render_store(node, t):
        if isinstance(node, (ast.For, ast.AsyncFor)):
            return f"for {ast.unparse(node.target)} in {ast.unparse(node.iter)}"
        if isinstance(node, (ast.With, ast.AsyncWith)):
            return "with … as " + ast.unparse(t)
        if isinstance(node, ast.Assign) and (len(node.targets) > 1 or not isinstance(node.targets[0], (ast.Attribute, ast.Subscript))):
            return f"{ast.unparse(t)} = … [{ast.unparse(node)}]"
        return ast.unparse(node)


# ----------------------------------------------------------------------------------------------
# whole-program fixpoint

def _functions(prog, modules):
    """(module, classinfo|None, FunctionDef, qualname) for every top-level function and method"""
    for m in modules:
        tree = prog.trees.get(m)
        if tree is None:
            continue
        for node in tree.body:
            if isinstance(node, (ast.FunctionDef, ast.AsyncFunctionDef)):
                yield m, None, node, node.name
            elif isinstance(node, ast.ClassDef):
                ci = prog.classes.get(node.name)
                if ci is None or ci.module != m:
                    ci = ClassInfo(node.name, m, node, [])
                for st in node.body:
                    if isinstance(st, (ast.FunctionDef, ast.AsyncFunctionDef)):
                        yield m, ci, st, f"{node.name}.{st.name}"


def _analyse(prog, modules):
    """all FnAnalysis objects (including nested functions), solved to a global fixpoint of the
    `self.X` attribute table."""
    def build():
        out = []

        def rec(m, ci, fn, qn, parent):
            fa = FnAnalysis(prog, m, ci, fn, qn, parent=parent)
            out.append(fa)
            for sub in fa.nested:
                rec(m, ci, sub, f"{qn}.<locals>.{sub.name}", fa)
        for m, ci, fn, qn in _functions(prog, modules):
            rec(m, ci, fn, qn, None)
        return out

    def table_of(fas, bottom):
        table = {}
        for ci in prog.classes.values():
            for k, v in ci.class_assigns.items():
                p = SCALAR if (bottom or isinstance(v, ast.Constant)) else Prov("global")
                table[(ci.name, k)] = join(table.get((ci.name, k)), p)
        for fa in fas:
            if fa.cls is None or fa.self_name is None or fa.cls.name not in prog.classes:
                continue
            for k, v in fa.self_binds.items():
                table[(fa.cls.name, k)] = join(table.get((fa.cls.name, k)), SCALAR if bottom else v)
            if fa.dynamic_self:
                table[(fa.cls.name, "*dynamic*")] = PARAM
        return table

    # Least fixpoint: the KEYS of the table (which attributes are bound where) are syntactic; start every
    # value at the bottom (scalar) and re-run all function analyses from scratch until the table is stable.
    fas = build()
    for fa in fas:
        fa.solve()
    prog.attr_table = table_of(fas, bottom=True)
    for _round in range(12):
        prog._ctor_cache.clear()
        fas = build()
        for fa in fas:
            fa.solve()
        table = table_of(fas, bottom=False)
        table = {k: join(prog.attr_table.get(k), v) for k, v in table.items()}
        if table == prog.attr_table:
            break
        prog.attr_table = table
    else:
        raise RuntimeError("effects_scan: attribute table did not stabilise")
    return fas


def load_justified(path=JUSTIFIED_PATH):
    if not os.path.exists(path):
        return []
    with open(path, encoding="utf-8") as f:
        return json.load(f)["justified"]


def scan(repo_src=DEFAULT_SRC, justified_path=JUSTIFIED_PATH, modules=None):
    """every mutation site of the anchored modules, in module order then source order"""
    modules = list(modules or MODULES)
    prog = Program(repo_src, modules + [m for m in GLOBAL_ONLY_MODULES if m not in modules])
    missing = [m for m in modules if m not in prog.trees]
    if missing:
        raise FileNotFoundError(f"anchored modules missing under {repo_src}: {missing}")
    fas = _analyse(prog, modules)
    just = {(j["module"], j["func"], j["render"]): j for j in load_justified(justified_path)}
    sites = []
    for fa in fas:
        for s in fa.sites():
            j = just.get((s.module, s.func, s.render))
            if j is not None and s.cls not in SAFE_CLASSES:
                s = Site(s.module, s.func, s.line, s.kind, s.render, s.root, s.cls, True, j.get("why", ""))
            sites.append(s)
    order = {m: i for i, m in enumerate(modules)}
    sites.sort(key=lambda s: (order[s.module], s.line, s.render, s.kind))
    return sites


def stale_justifications(sites, justified_path=JUSTIFIED_PATH):
    """entries of the hand-kept list that match no unsafe-by-class site any more"""
    used = {(s.module, s.func, s.render) for s in sites if s.justified}
    return [j for j in load_justified(justified_path) if (j["module"], j["func"], j["render"]) not in used]


def unsafe_sites(sites):
    return [s for s in sites if s.cls not in SAFE_CLASSES and not s.justified]


# ----------------------------------------------------------------------------------------------
# process-global state (C16)

def scan_globals(repo_src=DEFAULT_SRC, modules=None):
    modules = list(modules or (MODULES + GLOBAL_ONLY_MODULES))
    prog = Program(repo_src, modules)
    fas = _analyse(prog, modules)
    out = []
    rng_names = {}   # module -> names imported from numpy.random / random (the process-global generators)
    for m, tree in prog.trees.items():
        for node in ast.walk(tree):
            if isinstance(node, ast.ImportFrom) and node.module in ("numpy.random", "random"):
                rng_names.setdefault(m, set()).update(a.asname or a.name for a in node.names)
    for m in modules:
        tree = prog.trees.get(m)
        if tree is None:
            continue
        # module-level flags and mutable containers
        for node in tree.body:
            if isinstance(node, ast.Assign) and len(node.targets) == 1 and isinstance(node.targets[0], ast.Name):
                nm = node.targets[0].id
                if nm.startswith("__") and nm.endswith("__"):
                    continue
                if isinstance(node.value, ast.Constant) and isinstance(node.value.value, bool):
                    out.append(GlobalSite(m, "<module>", node.lineno, "module_flag", f"{nm} = {node.value.value}"))
                elif isinstance(node.value, (ast.List, ast.Dict, ast.Set)):
                    out.append(GlobalSite(m, "<module>", node.lineno, "module_container", f"{nm} = <{type(node.value).__name__.lower()} literal>"))
        # class-level attributes that are (re)bound at run time
        for ci in prog.classes.values():
            if ci.module != m:
                continue
            level = set(ci.class_assigns)
            for fa in fas:
                if fa.cls is not ci:
                    continue
                for n in fa.body_nodes:
                    tgts = []
                    if isinstance(n, ast.Assign):
                        tgts = n.targets
                    elif isinstance(n, (ast.AugAssign, ast.AnnAssign)):
                        tgts = [n.target]
                    for t in tgts:
                        if isinstance(t, ast.Attribute) and isinstance(t.value, ast.Name):
                            if t.value.id == fa.self_name and t.attr in level and not fa.is_init:
                                out.append(GlobalSite(m, fa.qualname, n.lineno, "class_attr_shadowed_by_instance",
                                                      " ".join(ast.unparse(n).split())))
                            elif t.value.id in (fa.cls_name, ci.name):
                                out.append(GlobalSite(m, fa.qualname, n.lineno, "class_attr_write",
                                                      " ".join(ast.unparse(n).split())))
    for fa in fas:
        mod_funcs = prog.module_funcs.get(fa.module, {})
        for n in fa.body_nodes:
            text = None
            kind = None
            if isinstance(n, (ast.Assign, ast.AugAssign, ast.AnnAssign)):
                tgts = n.targets if isinstance(n, ast.Assign) else [n.target]
                for t in tgts:
                    if isinstance(t, ast.Name) and t.id in fa.globals_declared:
                        out.append(GlobalSite(fa.module, fa.qualname, n.lineno, "module_var_write", _r(n)))
                    elif isinstance(t, ast.Attribute) and isinstance(t.value, ast.Name) and t.value.id in mod_funcs \
                            and t.value.id not in fa.env and t.value.id not in fa.params:
                        out.append(GlobalSite(fa.module, fa.qualname, n.lineno, "function_attr_write", _r(n)))
                    elif isinstance(t, (ast.Attribute, ast.Subscript)):
                        u = ast.unparse(t)
                        if u.startswith("sys.modules"):
                            out.append(GlobalSite(fa.module, fa.qualname, n.lineno, "sys_modules_write", _r(n)))
                        elif u.startswith("os.environ"):
                            out.append(GlobalSite(fa.module, fa.qualname, n.lineno, "os_environ_write", _r(n)))
                        else:
                            root, cls = fa.receiver_class(t.value)
                            if cls == "global":
                                out.append(GlobalSite(fa.module, fa.qualname, n.lineno, "global_object_write", _r(n)))
            elif isinstance(n, ast.Delete):
                for t in n.targets:
                    u = ast.unparse(t)
                    if isinstance(t, ast.Name) and t.id in fa.globals_declared:
                        out.append(GlobalSite(fa.module, fa.qualname, n.lineno, "module_var_write", "del " + u))
                    elif u.startswith("sys.modules"):
                        out.append(GlobalSite(fa.module, fa.qualname, n.lineno, "sys_modules_delete", "del " + u))
                    elif u.startswith("os.environ"):
                        out.append(GlobalSite(fa.module, fa.qualname, n.lineno, "os_environ_write", "del " + u))
                    elif isinstance(t, (ast.Attribute, ast.Subscript)):
                        root, cls = fa.receiver_class(t.value)
                        if cls == "global":
                            out.append(GlobalSite(fa.module, fa.qualname, n.lineno, "foreign_attr_delete", "del " + u))
            elif isinstance(n, ast.Call):
                u = ast.unparse(n.func)
                if u in ("setattr", "delattr") and n.args:
                    root, cls = fa.receiver_class(n.args[0])
                    if cls == "global":
                        out.append(GlobalSite(fa.module, fa.qualname, n.lineno, "global_object_write", _r(n)))
                elif isinstance(n.func, ast.Attribute) and n.func.attr in MUTATORS:
                    tgt = ast.unparse(n.func.value)
                    if tgt.startswith("sys.modules"):
                        out.append(GlobalSite(fa.module, fa.qualname, n.lineno, "sys_modules_write", _r(n)))
                    elif tgt.startswith("os.environ"):
                        out.append(GlobalSite(fa.module, fa.qualname, n.lineno, "os_environ_write", _r(n)))
                    else:
                        root, cls = fa.receiver_class(n.func.value)
                        if cls == "global":
                            out.append(GlobalSite(fa.module, fa.qualname, n.lineno, "global_object_write", _r(n)))
                elif u in ("os.environ.get", "os.getenv"):
                    out.append(GlobalSite(fa.module, fa.qualname, n.lineno, "os_environ_read", _r(n)))
                elif u in rng_names.get(fa.module, ()) or u.startswith(("numpy.random.", "np.random.", "random.")):
                    out.append(GlobalSite(fa.module, fa.qualname, n.lineno, "global_rng_use", _r(n)))
                elif u in ("importlib.reload", "importlib.import_module", "warnings.simplefilter", "warnings.warn",
                           "warnings.filterwarnings", "sys.setrecursionlimit", "numpy.random.seed", "random.seed",
                           "os.chdir", "sys.path.insert", "sys.path.append"):
                    out.append(GlobalSite(fa.module, fa.qualname, n.lineno, "process_state_call", _r(n)))
            elif isinstance(n, ast.Subscript) and isinstance(n.ctx, ast.Load) and ast.unparse(n.value) == "os.environ":
                out.append(GlobalSite(fa.module, fa.qualname, n.lineno, "os_environ_read", _r(n)))
    order = {m: i for i, m in enumerate(modules)}
    out = sorted(set(out), key=lambda g: (order[g.module], g.line, g.kind, g.render))
    return out


def _r(n):
    t = " ".join(ast.unparse(n).split())
    return t if len(t) <= 110 else t[:107] + "..."


# ----------------------------------------------------------------------------------------------
# Lean

def _lean_str(s):
    out = []
    for ch in s:
        if ch == "\\":
            out.append("\\\\")
        elif ch == '"':
            out.append('\\"')
        elif ch == "\n":
            out.append("\\n")
        elif ch == "\t":
            out.append("\\t")
        elif ord(ch) < 32:
            out.append("\\x%02x" % ord(ch))
        else:
            out.append(ch)
    return '"' + "".join(out) + '"'


LEAN_CLS = {"fresh": ".fresh", "self_init": ".selfInit", "own_state": ".ownState", "self_ir": ".selfIr",
            "param": ".param", "global": ".global", "unknown": ".unknown"}


def render_lean(sites, globals_):
    lines = [
        "/- GENERATED by /verif/harness/effects_scan.py from the source text of the anchored jaqalpaq modules.",
        "   DO NOT EDIT.  Regenerated by every check; `JaqalProofs/Props/C11.lean` discharges",
        "   `∀ s ∈ sites, s.cls is fresh / selfInit / ownState ∨ s.justified` over this table by `decide`",
        "   and `globals = Pinned.globals`.  Line numbers are deliberately not part of the table. -/",
        "import JaqalModel.Model.Heap",
        "",
        "namespace Jaqal.Generated.Effects",
        "open Jaqal.Heap",
        "",
        f"/-- {len(sites)} mutation sites; {sum(1 for s in sites if s.cls in SAFE_CLASSES)} safe by class, "
        f"{sum(1 for s in sites if s.justified)} justified by hand, {len(unsafe_sites(sites))} open. -/",
        "def sites : List Site := [",
    ]
    for i, s in enumerate(sites):
        sep = "," if i + 1 < len(sites) else ""
        lines.append(f"  ⟨{_lean_str(s.module)}, {_lean_str(s.func)}, {_lean_str(s.render)}, "
                     f"{LEAN_CLS[s.cls]}, {'true' if s.justified else 'false'}⟩{sep}")
    lines.append("]")
    lines.append("")
    lines.append(f"/-- {len(globals_)} pieces of process-global state (C16). -/")
    lines.append("def globals : List GlobalSite := [")
    for i, g in enumerate(globals_):
        sep = "," if i + 1 < len(globals_) else ""
        lines.append(f"  ⟨{_lean_str(g.module)}, {_lean_str(g.func)}, {_lean_str(g.kind)}, {_lean_str(g.render)}⟩{sep}")
    lines.append("]")
    lines.append("")
    lines.append("end Jaqal.Generated.Effects")
    return "\n".join(lines) + "\n"


def emit_lean(sites, path=LEAN_OUT, globals_=None, repo_src=DEFAULT_SRC):
    """write the generated table; returns True when the file content changed"""
    if globals_ is None:
        globals_ = scan_globals(repo_src)
    text = render_lean(sites, globals_)
    old = None
    if os.path.exists(path):
        with open(path, encoding="utf-8") as f:
            old = f.read()
    if old != text:
        os.makedirs(os.path.dirname(path), exist_ok=True)
        with open(path, "w", encoding="utf-8") as f:
            f.write(text)
    return old != text


def table_json(sites, globals_):
    """the content of the table as the harness compares it (no line numbers)"""
    return {"sites": [[s.module, s.func, s.render, s.cls, s.justified] for s in sites],
            "globals": [[g.module, g.func, g.kind, g.render] for g in globals_]}


def main(argv=None):
    ap = argparse.ArgumentParser(description=__doc__.split("\n")[0])
    ap.add_argument("--repo-src", default=DEFAULT_SRC)
    ap.add_argument("--emit", nargs="?", const=LEAN_OUT, default=None, help="write the Lean table (default path if no value)")
    ap.add_argument("--check", default=None, help="compare the regenerated table with this committed Lean file")
    ap.add_argument("--show", action="store_true", help="print every site")
    ap.add_argument("--json", action="store_true")
    a = ap.parse_args(argv)
    sites = scan(a.repo_src)
    globs = scan_globals(a.repo_src)
    if a.json:
        print(json.dumps({"sites": [asdict(s) for s in sites], "globals": [asdict(g) for g in globs]}, indent=1))
    elif a.show:
        for s in sites:
            flag = "ok " if s.cls in SAFE_CLASSES else ("JUST" if s.justified else "OPEN")
            print(f"{flag:4s} {s.module}:{s.line:<4d} {s.func:46s} {s.kind:12s} {s.cls:9s} root={s.root:14s} {s.render}")
        print()
        for g in globs:
            print(f"GLOBAL {g.module}:{g.line:<4d} {g.func:34s} {g.kind:32s} {g.render}")
    counts = {c: sum(1 for s in sites if s.cls == c) for c in ALL_CLASSES}
    bad = unsafe_sites(sites)
    stale = stale_justifications(sites)
    print(f"sites={len(sites)} {counts} justified={sum(1 for s in sites if s.justified)} open={len(bad)} "
          f"globals={len(globs)} stale_justifications={len(stale)}", file=sys.stderr)
    for s in bad:
        print(f"OPEN  {s.module}:{s.line} {s.func}: {s.render}   [{s.cls}, root {s.root}]", file=sys.stderr)
    for j in stale:
        print(f"STALE justification: {j['module']} {j['func']}: {j['render']}", file=sys.stderr)
    rc = 1 if bad else 0
    if a.emit:
        changed = emit_lean(sites, a.emit, globs, a.repo_src)
        print(f"{'wrote' if changed else 'unchanged'} {a.emit}", file=sys.stderr)
    if a.check:
        with open(a.check, encoding="utf-8") as f:
            same = f.read() == render_lean(sites, globs)
        print(f"committed table {'matches' if same else 'DIFFERS from'} the regenerated one", file=sys.stderr)
        rc = rc or (0 if same else 2)
    return rc


if __name__ == "__main__":
    sys.exit(main())
